"""pytest plugin (§6.1): run the repository's OWN tests with the lock-step monitor attached to emulate_cycle,
in trust-fetch mode (the tests override fetch_instruction and set cpu.opcode / opcode_len themselves).
Every test input carries an asserted expected value, so a disagreement here is first presumed to be a bug in the
reference.  Usage:  cd /repo && PYTHONPATH=/verif /venv/bin/python -m pytest -q -p vf.pytest_monitor -p no:cacheprovider
Writes /verif/.work/under_monitor.json and prints a summary."""
import json
import os
import sys

sys.path.insert(0, os.path.dirname(os.path.dirname(os.path.abspath(__file__))))
from vf import common            # noqa: E402
common.use_repo()

STATS = dict(steps=0, judged=0, agree=0, disagree=[], unpredictable=0, not_modelled=0, optional=0)


def pytest_configure(config):
    from armulator.armv6.arm_v6 import ArmV6
    from vf import observe
    from vf.ref import step as RS
    from vf.ref import deviations
    orig = ArmV6.emulate_cycle

    def monitored(self):
        try:
            pre = observe.snapshot(self)
        except Exception:
            return orig(self)
        err = None
        try:
            orig(self)
        except BaseException as ex:        # noqa
            err = ex
        STATS['steps'] += 1
        try:
            post = observe.snapshot(self)
            kind = 'arm' if not (pre['cpsr'] >> 5) & 1 else ('t16' if self.opcode_len == 16 else 't32')
            verdict, ref, info = RS.step(pre, self.configs, forced=(kind, self.opcode))
            if verdict == 'ok' and err is None:
                STATS['judged'] += 1
                diffs = RS.compare(ref, post)
                if diffs:
                    for dev in deviations.for_row(info.get('row') or ''):
                        v2, ref2, _ = RS.step(pre, self.configs, forced=(kind, self.opcode), deviation=dev)
                        if v2 == 'ok' and not RS.compare(ref2, post):
                            diffs = [('known-deviation:' + dev.name, 0, 0)]
                            break
                if diffs:
                    STATS['disagree'].append(dict(test=os.environ.get('PYTEST_CURRENT_TEST', '?'), row=info.get('row'),
                                                  word='%#x' % self.opcode,
                                                  diffs=[(l, str(e)[:20], str(g)[:20]) for l, e, g in diffs[:4]]))
                else:
                    STATS['agree'] += 1
            else:
                STATS[{'unpredictable': 'unpredictable', 'not-modelled': 'not_modelled', 'optional': 'optional'}.get(verdict, 'not_modelled')] += 1
        except Exception as ex:            # the monitor must never break a test
            STATS['disagree'].append(dict(test=os.environ.get('PYTEST_CURRENT_TEST', '?'), monitor_error=repr(ex)[:200]))
        if err is not None:
            raise err
    ArmV6.emulate_cycle = monitored


def pytest_unconfigure(config):
    out = os.path.join(common.WORK, 'under_monitor.json')
    os.makedirs(common.WORK, exist_ok=True)
    with open(out, 'w') as f:
        json.dump(STATS, f, indent=1)
    real = sys.__stdout__
    real.write('\n[lock-step monitor on the repository tests] steps=%d judged=%d agree=%d disagree=%d unpredictable=%d '
               'not-modelled=%d optional=%d -> %s\n' % (STATS['steps'], STATS['judged'], STATS['agree'], len(STATS['disagree']),
                                                        STATS['unpredictable'], STATS['not_modelled'], STATS['optional'], out))
