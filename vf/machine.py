"""Configuration generator and CPU builder.  No repository source is edited: everything is
attached from outside.  Because the repository keeps its configuration in one process-wide
singleton, a harness *activates* the configuration of the CPU it is about to touch (only the
C20 check deliberately does not)."""
import json
import os
import hashlib
from vf.common import use_repo, workdir, REPO
use_repo()

from armulator.armv6.arm_v6 import ArmV6                                  # noqa: E402
from armulator.armv6 import configurations as _cfgmod                      # noqa: E402
from armulator.armv6.memory_controller_hub import MemoryController       # noqa: E402
from armulator.armv6.memory_types import RAM                             # noqa: E402

_DEFAULT = None

MODES = {'usr': 0b10000, 'fiq': 0b10001, 'irq': 0b10010, 'svc': 0b10011, 'mon': 0b10110,
         'abt': 0b10111, 'hyp': 0b11010, 'und': 0b11011, 'sys': 0b11111}
MODE_NAMES = {v: k for k, v in MODES.items()}


def default_config():
    global _DEFAULT
    if _DEFAULT is None:
        with open(os.path.join(REPO, 'armulator', 'armv6', 'arm_configurations.json')) as f:
            _DEFAULT = json.load(f)
    return json.loads(json.dumps(_DEFAULT))


def make_config(arch=6, msa='PMSA', sec=True, virt=False, lpae=False, v7r=False, mems=((0, 0x100),),
                sctlr=None, **extra):
    c = default_config()
    c['arch_version'] = arch
    c['memory_system_architecture'] = msa
    c['have_security_ext'] = bool(sec)
    c['have_virt_ext'] = bool(virt)
    c['have_lpae'] = bool(lpae)
    c['is_armv7r_profile'] = bool(v7r)
    c['memory_list'] = [dict(mem_type='RAM', beginning=b, end=e) for b, e in mems]
    if sctlr is not None:
        c['reset_values']['SCTLR'] = '0b' + format(sctlr, '032b')
    for regname, value in (extra.pop('reset_values', None) or {}).items():
        c['reset_values'][regname] = '0b' + format(value, '032b')
    c.update(extra)
    return c


def config_path(cfg):
    s = json.dumps(cfg, sort_keys=True)
    p = os.path.join(workdir(), 'cfg_' + hashlib.sha1(s.encode()).hexdigest()[:16] + '.json')
    if not os.path.exists(p):
        with open(p, 'w') as f:
            f.write(s)
    return p


class Cpu(ArmV6):
    """The harness's processor: the repository's ArmV6 plus the two trivial answers a user of
    the VMSA configuration has to supply for the table walker (the repository marks them
    '# mock')."""

    def remap_regs_have_reset_values(self):
        return True

    def tlb_lookup_came_from_cache_maintenance(self):
        return False


def activate(cpu):
    _cfgmod.configurations.configs = cpu._vf_cfg


def build(cfg=None, cls=Cpu, reset=True, mpu_off=True, thumb=None):
    """Build a CPU from a configuration dict.  By default SCTLR.M is cleared after reset
    (the default reset value has M=1 with zero regions: every access would fault)."""
    if cfg is None:
        cfg = make_config()
    cpu = cls(config_path(cfg))
    cpu._vf_cfg = _cfgmod.configurations.configs
    if reset:
        if thumb is not None:
            cpu.registers.sctlr.te = 1 if thumb else 0
        cpu.take_reset()
    if mpu_off:
        cpu.registers.sctlr.m = 0
    return cpu


def set_memories(cpu, mems, fill=None):
    """mems: list of (begin, end).  fill: callable(abs_address)->byte or None (zero)."""
    cpu.mem.memories.clear()
    for b, e in mems:
        ram = RAM(e - b)
        if fill is not None:
            ram.memory_array[:] = bytes(fill(b + i) & 0xFF for i in range(e - b))
        cpu.mem.memories.append(MemoryController(ram, b, e))


def pattern_fill(addr):
    return (addr * 7 + (addr >> 8) * 13 + 0x5A) & 0xFF


def poke(cpu, addr, data):
    """Write bytes at a physical address directly into the backing RAM (bypasses the CPU)."""
    for i, byte in enumerate(data):
        a = (addr + i) & 0xFFFFFFFF
        for m in cpu.mem.memories:
            if m.beginning <= a < m.end:
                m.mem.memory_array[a - m.beginning] = byte
                break


def peek(cpu, addr, n):
    out = bytearray()
    for i in range(n):
        a = (addr + i) & 0xFFFFFFFF
        for m in cpu.mem.memories:
            if m.beginning <= a < m.end:
                out.append(m.mem.memory_array[a - m.beginning])
                break
        else:
            out.append(0)
    return bytes(out)


def put_code(cpu, addr, word, kind):
    """kind: 'arm' | 't16' | 't32'; instruction fetch is little-endian, Thumb-32 = hw1 then hw2."""
    if kind == 'arm':
        poke(cpu, addr, word.to_bytes(4, 'little'))
    elif kind == 't16':
        poke(cpu, addr, word.to_bytes(2, 'little'))
    else:
        poke(cpu, addr, (word >> 16).to_bytes(2, 'little') + (word & 0xFFFF).to_bytes(2, 'little'))


def set_cpsr(cpu, mode=None, thumb=None, nzcv=None, it=None, **bits):
    c = cpu.registers.cpsr
    if mode is not None:
        c.m = MODES[mode] if isinstance(mode, str) else mode
    if thumb is not None:
        c.t = 1 if thumb else 0
        c.j = 0
    if nzcv is not None:
        c.value = (c.value & 0x0FFFFFFF) | (nzcv << 28)
    if it is not None:
        c.it = it
    for k, v in bits.items():
        setattr(c, k, v)


def legal_modes(cfg, ns=None):
    ms = ['usr', 'fiq', 'irq', 'svc', 'abt', 'und', 'sys']
    if cfg['have_security_ext'] and not ns:
        ms.append('mon')
    if cfg['have_virt_ext'] and cfg['have_security_ext'] and ns:
        ms.append('hyp')
    return ms


CORNERS32 = [0, 1, 2, 3, 4, 0x7F, 0x80, 0xFF, 0x100, 0x7FFF, 0x8000, 0xFFFF, 0x10000, 0x7FFFFFFF,
             0x80000000, 0x80000001, 0xFFFFFFFE, 0xFFFFFFFF, 0x7F80FF00, 0x80008000, 0x7FFF8000,
             0x00FF00FF, 0xFF00FF00, 0x55555555, 0xAAAAAAAA, 0x0000FFFF, 0xFFFF0000, 0x40000000,
             0xC0000000, 0x12345678, 0x00010001, 0x80808080, 0x7F7F7F7F, 31, 32, 33, 255, 256]


def rand32(rng):
    k = rng.random()
    if k < 0.45:
        return rng.choice(CORNERS32)
    if k < 0.6:
        return (rng.choice(CORNERS32) + rng.choice((-1, 1, 2, -2))) & 0xFFFFFFFF
    if k < 0.7:
        return 1 << rng.randrange(32)
    if k < 0.8:
        return rng.getrandbits(rng.randrange(1, 33))
    if k < 0.88:
        # a corner value in the bottom byte under arbitrary upper bits (register-specified shift amounts are Rs<7:0>, byte
        # lanes, 8-bit fields): bit 8 alone, all upper bits, or random ones over a zero / boundary byte
        return (rng.choice([1, 1, 0xFFFFFF, rng.getrandbits(24)]) << 8) | rng.choice([0, 0, 0, 1, 31, 32, 33, 0x7F, 0x80, 0xFF])
    return rng.getrandbits(32)
