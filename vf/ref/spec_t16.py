"""Thumb 16-bit encoding table (DDI 0406C A6.2 + encoding diagrams of A8)."""
from vf.ref.spec import Table, unpred
from vf.ref import bits as B

D = {}


def dec(name):
    def reg(fn):
        D[name] = fn
        return fn
    return reg


def bc(x):
    return bin(x).count('1')


@dec('shift_imm')
def _(f, x):
    st, sn = B.DecodeImmShift(f.t, f.i)
    return dict(d=f.d, m=f.m, setflags=int(not x.in_it), shift_n=sn)


@dec('mov_reg_t2')
def _(f, x):
    unpred(x.in_it)
    return dict(d=f.d, m=f.m, setflags=1)


@dec('addsub_reg_t1')
def _(f, x):
    return dict(d=f.d, n=f.n, m=f.m, setflags=int(not x.in_it), shift_t='LSL', shift_n=0)


@dec('addsub_imm3')
def _(f, x):
    return dict(d=f.d, n=f.n, setflags=int(not x.in_it), imm32=f.i)


@dec('mov_imm_t1')
def _(f, x):
    return dict(d=f.d, setflags=int(not x.in_it), imm32=f.i, carry=x.C)


@dec('cmp_imm_t1')
def _(f, x):
    return dict(n=f.n, imm32=f.i)


@dec('addsub_imm8')
def _(f, x):
    return dict(d=f.d, n=f.d, setflags=int(not x.in_it), imm32=f.i)


@dec('dp_t1')               # AND EOR ADC SBC ORR BIC : Rdn, Rm
def _(f, x):
    return dict(d=f.d, n=f.d, m=f.m, setflags=int(not x.in_it), shift_t='LSL', shift_n=0)


@dec('shift_reg_t1')        # LSL LSR ASR ROR (register): Rdn, Rm
def _(f, x):
    return dict(d=f.d, n=f.d, m=f.m, setflags=int(not x.in_it))


@dec('cmp_t1')              # TST CMP CMN
def _(f, x):
    return dict(n=f.n, m=f.m, shift_t='LSL', shift_n=0)


@dec('rsb_t1')
def _(f, x):
    return dict(d=f.d, n=f.n, setflags=int(not x.in_it), imm32=0)


@dec('mul_t1')
def _(f, x):
    unpred(x.arch < 6 and f.d == f.n)
    return dict(d=f.d, n=f.n, m=f.d, setflags=int(not x.in_it))


@dec('mvn_t1')
def _(f, x):
    return dict(d=f.d, m=f.m, setflags=int(not x.in_it), shift_t='LSL', shift_n=0)


@dec('add_reg_t2')
def _(f, x):
    d = (f.D << 3) | f.d
    unpred(d == 15 and f.m == 15)
    unpred(d == 15 and x.in_it and not x.last_it)
    return dict(d=d, n=d, m=f.m, setflags=0, shift_t='LSL', shift_n=0)


@dec('add_sp_reg_t1')
def _(f, x):
    d = (f.D << 3) | f.d
    unpred(d == 15 and x.in_it and not x.last_it)
    return dict(d=d, m=d, setflags=0, shift_t='LSL', shift_n=0)


@dec('add_sp_reg_t2')
def _(f, x):
    return dict(d=13, m=f.m, setflags=0, shift_t='LSL', shift_n=0)


@dec('cmp_reg_t2')
def _(f, x):
    n = (f.N << 3) | f.n
    unpred(n < 8 and f.m < 8)
    unpred(n == 15 or f.m == 15)
    return dict(n=n, m=f.m, shift_t='LSL', shift_n=0)


@dec('mov_reg_t1')
def _(f, x):
    d = (f.D << 3) | f.d
    unpred(d == 15 and x.in_it and not x.last_it)
    unpred(x.arch < 6 and d < 8 and f.m < 8)
    return dict(d=d, m=f.m, setflags=0)


@dec('bx')
def _(f, x):
    unpred(x.in_it and not x.last_it)
    return dict(m=f.m)


@dec('blx_reg')
def _(f, x):
    unpred(f.m == 15)
    unpred(x.in_it and not x.last_it)
    return dict(m=f.m)


@dec('ldr_lit')
def _(f, x):
    return dict(t=f.t, imm32=f.i << 2, add=1)


@dec('ls_reg')              # STR STRH STRB LDRSB LDR LDRH LDRB LDRSH (register) T1
def _(f, x):
    return dict(t=f.t, n=f.n, m=f.m, index=1, add=1, wback=0, shift_t='LSL', shift_n=0)


@dec('ldr_reg_t1')          # LdrRegisterThumb has no index/add/wback operands in the repository
def _(f, x):
    return dict(t=f.t, n=f.n, m=f.m, shift_t='LSL', shift_n=0)


@dec('ls_imm5_w')
def _(f, x):
    return dict(t=f.t, n=f.n, imm32=f.i << 2, index=1, add=1, wback=0)


@dec('ls_imm5_b')
def _(f, x):
    return dict(t=f.t, n=f.n, imm32=f.i, index=1, add=1, wback=0)


@dec('ls_imm5_h')
def _(f, x):
    return dict(t=f.t, n=f.n, imm32=f.i << 1, index=1, add=1, wback=0)


@dec('ls_sp')
def _(f, x):
    return dict(t=f.t, n=13, imm32=f.i << 2, index=1, add=1, wback=0)


@dec('adr')
def _(f, x):
    return dict(d=f.d, imm32=f.i << 2, add=1)


@dec('add_sp_imm_t1')
def _(f, x):
    return dict(d=f.d, setflags=0, imm32=f.i << 2)


@dec('addsub_sp_imm7')
def _(f, x):
    return dict(d=13, setflags=0, imm32=f.i << 2)


@dec('cbz')
def _(f, x):
    unpred(x.in_it)
    return dict(n=f.n, imm32=((f.j << 5) | f.i) << 1, nonzero=f.N)


@dec('xt')
def _(f, x):
    return dict(d=f.d, m=f.m, rotation=0)


@dec('push')
def _(f, x):
    regs = (f.M << 14) | f.r
    unpred(bc(regs) < 1)
    return dict(registers=regs, unaligned_allowed=0)


@dec('pop')
def _(f, x):
    regs = (f.P << 15) | f.r
    unpred(bc(regs) < 1)
    unpred(f.P == 1 and x.in_it and not x.last_it)
    return dict(registers=regs, unaligned_allowed=0)


@dec('setend')
def _(f, x):
    unpred(x.in_it)
    return dict(set_bigend=f.E)


@dec('cps')
def _(f, x):
    unpred(f.A == 0 and f.I == 0 and f.F == 0)
    unpred(x.in_it)
    return dict(enable=int(f.i == 0), disable=int(f.i == 1), change_mode=0, affect_a=f.A, affect_i=f.I, affect_f=f.F)


@dec('dm')
def _(f, x):
    return dict(d=f.d, m=f.m)


@dec('none')
def _(f, x):
    return dict()


@dec('it')
def _(f, x):
    unpred(f.f == 15 or (f.f == 14 and bc(f.m) != 1))
    unpred(x.in_it)
    return dict(firstcond=f.f, mask=f.m)


@dec('stm')
def _(f, x):
    unpred(bc(f.r) < 1)
    return dict(n=f.n, registers=f.r, wback=1)


@dec('ldm')
def _(f, x):
    unpred(bc(f.r) < 1)
    return dict(n=f.n, registers=f.r, wback=int(((f.r >> f.n) & 1) == 0))


@dec('b_t1')
def _(f, x):
    unpred(x.in_it)
    return dict(imm32=B.SignExtend(f.i << 1, 9, 32))


@dec('b_t2')
def _(f, x):
    unpred(x.in_it and not x.last_it)
    return dict(imm32=B.SignExtend(f.i << 1, 12, 32))


@dec('svc')
def _(f, x):
    return dict(imm32=f.i)


T16 = Table('t16', 16)
T16.add_text('''
mov_register_thumb_t2  | 000 00 00000 mmm ddd | | mov_reg_t2 | dp:MOV
lsl_immediate_t1       | 000 tt iiiii mmm ddd | t != 0 | shift_imm | dp:LSLi
lsr_immediate_t1       | 000 tt iiiii mmm ddd | t != 1 | shift_imm | dp:LSRi
asr_immediate_t1       | 000 tt iiiii mmm ddd | t != 2 | shift_imm | dp:ASRi
add_register_thumb_t1  | 000 11 0 0 mmm nnn ddd | | addsub_reg_t1 | dp:ADD
sub_register_t1        | 000 11 0 1 mmm nnn ddd | | addsub_reg_t1 | dp:SUB
add_immediate_thumb_t1 | 000 11 1 0 iii nnn ddd | | addsub_imm3 | dp:ADD
sub_immediate_thumb_t1 | 000 11 1 1 iii nnn ddd | | addsub_imm3 | dp:SUB
mov_immediate_t1       | 001 00 ddd iiiiiiii | | mov_imm_t1 | dp:MOV
cmp_immediate_t1       | 001 01 nnn iiiiiiii | | cmp_imm_t1 | dp:CMP
add_immediate_thumb_t2 | 001 10 ddd iiiiiiii | | addsub_imm8 | dp:ADD
sub_immediate_thumb_t2 | 001 11 ddd iiiiiiii | | addsub_imm8 | dp:SUB
and_register_t1        | 010000 0000 mmm ddd | | dp_t1 | dp:AND
eor_register_t1        | 010000 0001 mmm ddd | | dp_t1 | dp:EOR
lsl_register_t1        | 010000 0010 mmm ddd | | shift_reg_t1 | dp:LSLr
lsr_register_t1        | 010000 0011 mmm ddd | | shift_reg_t1 | dp:LSRr
asr_register_t1        | 010000 0100 mmm ddd | | shift_reg_t1 | dp:ASRr
adc_register_t1        | 010000 0101 mmm ddd | | dp_t1 | dp:ADC
sbc_register_t1        | 010000 0110 mmm ddd | | dp_t1 | dp:SBC
ror_register_t1        | 010000 0111 mmm ddd | | shift_reg_t1 | dp:RORr
tst_register_t1        | 010000 1000 mmm nnn | | cmp_t1 | dp:TST
rsb_immediate_t1       | 010000 1001 nnn ddd | | rsb_t1 | dp:RSB
cmp_register_t1        | 010000 1010 mmm nnn | | cmp_t1 | dp:CMP
cmn_register_t1        | 010000 1011 mmm nnn | | cmp_t1 | dp:CMN
orr_register_t1        | 010000 1100 mmm ddd | | dp_t1 | dp:ORR
mul_t1                 | 010000 1101 nnn ddd | | mul_t1 | mul
bic_register_t1        | 010000 1110 mmm ddd | | dp_t1 | dp:BIC
mvn_register_t1        | 010000 1111 mmm ddd | | mvn_t1 | dp:MVN
add_sp_plus_register_thumb_t1 | 010001 00 D 1101 ddd | | add_sp_reg_t1 | dp:ADD:sp
add_sp_plus_register_thumb_t2 | 010001 00 1 mmmm 101 | | add_sp_reg_t2 | dp:ADD:sp
add_register_thumb_t2  | 010001 00 D mmmm ddd | | add_reg_t2 | dp:ADD
cmp_register_t2        | 010001 01 N mmmm nnn | | cmp_reg_t2 | dp:CMP
mov_register_thumb_t1  | 010001 10 D mmmm ddd | | mov_reg_t1 | dp:MOV
bx_t1                  | 010001 110 mmmm zzz | | bx | bx
blx_register_t1        | 010001 111 mmmm zzz | | blx_reg | blx_reg
ldr_literal_t1         | 01001 ttt iiiiiiii | | ldr_lit | ls:LDR:lit
str_register_t1        | 0101 000 mmm nnn ttt | | ls_reg | ls:STR
strh_register_t1       | 0101 001 mmm nnn ttt | | ls_reg | ls:STRH
strb_register_t1       | 0101 010 mmm nnn ttt | | ls_reg | ls:STRB
ldrsb_register_t1      | 0101 011 mmm nnn ttt | | ls_reg | ls:LDRSB
ldr_register_thumb_t1  | 0101 100 mmm nnn ttt | | ldr_reg_t1 | ls:LDR
ldrh_register_t1       | 0101 101 mmm nnn ttt | | ls_reg | ls:LDRH
ldrb_register_t1       | 0101 110 mmm nnn ttt | | ls_reg | ls:LDRB
ldrsh_register_t1      | 0101 111 mmm nnn ttt | | ls_reg | ls:LDRSH
str_immediate_thumb_t1 | 011 0 0 iiiii nnn ttt | | ls_imm5_w | ls:STR
ldr_immediate_thumb_t1 | 011 0 1 iiiii nnn ttt | | ls_imm5_w | ls:LDR
strb_immediate_thumb_t1 | 011 1 0 iiiii nnn ttt | | ls_imm5_b | ls:STRB
ldrb_immediate_thumb_t1 | 011 1 1 iiiii nnn ttt | | ls_imm5_b | ls:LDRB
strh_immediate_thumb_t1 | 1000 0 iiiii nnn ttt | | ls_imm5_h | ls:STRH
ldrh_immediate_thumb_t1 | 1000 1 iiiii nnn ttt | | ls_imm5_h | ls:LDRH
str_immediate_thumb_t2 | 1001 0 ttt iiiiiiii | | ls_sp | ls:STR
ldr_immediate_thumb_t2 | 1001 1 ttt iiiiiiii | | ls_sp | ls:LDR
adr_t1                 | 1010 0 ddd iiiiiiii | | adr | adr
add_sp_plus_immediate_t1 | 1010 1 ddd iiiiiiii | | add_sp_imm_t1 | dp:ADD:sp
add_sp_plus_immediate_t2 | 1011 0000 0 iiiiiii | | addsub_sp_imm7 | dp:ADD:sp
sub_sp_minus_immediate_t1 | 1011 0000 1 iiiiiii | | addsub_sp_imm7 | dp:SUB:sp
cbz_t1                 | 1011 N 0 j 1 iiiii nnn | | cbz | cbz
sxth_t1                | 1011 0010 00 mmm ddd | | xt | xt:S:H
sxtb_t1                | 1011 0010 01 mmm ddd | | xt | xt:S:B
uxth_t1                | 1011 0010 10 mmm ddd | | xt | xt:U:H
uxtb_t1                | 1011 0010 11 mmm ddd | | xt | xt:U:B
push_t1                | 1011 010 M rrrrrrrr | | push | push
setend_t1              | 1011 0110 010 o E zzz | | setend | setend
cps_thumb_t1           | 1011 0110 011 i z A I F | | cps | cps
rev_t1                 | 1011 1010 00 mmm ddd | | dm | rev
rev16_t1               | 1011 1010 01 mmm ddd | | dm | rev16
revsh_t1               | 1011 1010 11 mmm ddd | | dm | revsh
pop_thumb_t1           | 1011 110 P rrrrrrrr | | pop | pop
bkpt_t1                | 1011 1110 iiiiiiii | | none | bkpt
nop_t1                 | 1011 1111 0000 0000 | | none | nop
yield_t1               | 1011 1111 0001 0000 | | none | yield
wfe_t1                 | 1011 1111 0010 0000 | | none | wfe
wfi_t1                 | 1011 1111 0011 0000 | | none | wfi
sev_t1                 | 1011 1111 0100 0000 | | none | sev
?unallocated_hint_t1   | 1011 1111 xxxx 0000
it_t1                  | 1011 1111 ffff mmmm | | it | it
stm_t1                 | 1100 0 nnn rrrrrrrr | | stm | stm:IA
ldm_thumb_t1           | 1100 1 nnn rrrrrrrr | | ldm | ldm:IA
~udf_t1                | 1101 1110 iiiiiiii
svc_t1                 | 1101 1111 iiiiiiii | | svc | svc
b_t1                   | 1101 cccc iiiiiiii | | b_t1 | b_cond
b_t2                   | 1110 0 iiiiiiiiiii | | b_t2 | b
''', D)
