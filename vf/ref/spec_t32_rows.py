"""Rows of the Thumb-32 table (text), split from the decoders for size.  hw1 | hw2 shown as one 32-bit pattern."""

_par = []
for opname, opbits in (('add16', '001'), ('asx', '010'), ('sax', '110'), ('sub16', '101'), ('add8', '000'), ('sub8', '100')):
    for pfx, pbits, sem in (('s', '000', 'S'), ('q', '001', 'Q'), ('sh', '010', 'SH'), ('u', '100', 'U'), ('uq', '101', 'UQ'),
                            ('uh', '110', 'UH')):
        _par.append('%s%s_t1 | 1111 1010 1 %s nnnn 1111 dddd 0 %s mmmm | | dnm | par:%s:%s' % (
            pfx, opname, opbits, pbits, sem, opname.upper()))

_ls = []
# store single data item: size code in hw1 bits 6:5 (00 B, 01 H, 10 W)
for nm, sz, tdec in (('strb', '00', 'strbh'), ('strh', '01', 'strbh'), ('str', '10', 'str')):
    sem = 'ls:' + nm.upper()
    imm_t12 = {'strb': 'strb_immediate_thumb_t2', 'strh': 'strh_immediate_thumb_t2', 'str': 'str_immediate_thumb_t3'}[nm]
    imm_t8 = {'strb': 'strb_immediate_thumb_t3', 'strh': 'strh_immediate_thumb_t3', 'str': 'str_immediate_thumb_t4'}[nm]
    _ls.append('%s_register_t2 | 1111 1000 0%s0 nnnn tttt 000000 ss mmmm | n == 15 | %s_reg | %s' % (nm, sz, tdec, sem))
    _ls.append('%st_t1 | 1111 1000 0%s0 nnnn tttt 1110 iiiiiiii | n == 15 | ldrt | %sT' % (nm, sz, sem))
    if nm == 'str':
        _ls.append('push_t3 | 1111 1000 0100 1101 tttt 1101 00000100 | | push_t3 | push')
    _ls.append('%s | 1111 1000 0%s0 nnnn tttt 1 P U W iiiiiiii | n == 15 or (W == 0 and (P == 0 or U == 1)) | %s_imm8 | %s' % (imm_t8, sz, tdec, sem))
    _ls.append('%s | 1111 1000 1%s0 nnnn tttt iiiiiiiiiiii | n == 15 | %s_imm12 | %s' % (imm_t12, sz, tdec, sem))

ROWS = '''
# ---- A6.3.5 load/store multiple
srs_thumb_t1   | 1110 1000 00 W 0 oozo oozz zzzz zzz mmmmm | | srs_db | srs
rfe_t1         | 1110 1000 00 W 1 nnnn oozz zzzz zzzz zzzz | | rfe_db | rfe
stm_t2         | 1110 1000 10 W 0 nnnn z M z rrrrrrrrrrrrr | | stm | stm:IA
pop_thumb_t2   | 1110 1000 10 1 1 1101 P M z rrrrrrrrrrrrr | | pop_t2 | pop
ldm_thumb_t2   | 1110 1000 10 W 1 nnnn P M z rrrrrrrrrrrrr | | ldm | ldm:IA
push_t2        | 1110 1001 00 1 0 1101 z M z rrrrrrrrrrrrr | | push_t2 | push
stmdb_t1       | 1110 1001 00 W 0 nnnn z M z rrrrrrrrrrrrr | | stm | stm:DB
ldmdb_t1       | 1110 1001 00 W 1 nnnn P M z rrrrrrrrrrrrr | | ldm | ldm:DB
srs_thumb_t2   | 1110 1001 10 W 0 oozo oozz zzzz zzz mmmmm | | srs_ia | srs
rfe_t2         | 1110 1001 10 W 1 nnnn oozz zzzz zzzz zzzz | | rfe_ia | rfe
# ---- A6.3.6 load/store dual, exclusive, table branch
strex_t1       | 1110 1000 0100 nnnn tttt dddd iiiiiiii | | strex | strex:4
ldrex_t1       | 1110 1000 0101 nnnn tttt oooo iiiiiiii | | ldrex | ldrex:4
strexb_t1      | 1110 1000 1100 nnnn tttt oooo 0100 dddd | | strexbh | strex:1
strexh_t1      | 1110 1000 1100 nnnn tttt oooo 0101 dddd | | strexbh | strex:2
strexd_t1      | 1110 1000 1100 nnnn tttt uuuu 0111 dddd | | strexd | strex:8
tbb_tbh_t1     | 1110 1000 1101 nnnn oooo zzzz 000 H mmmm | | tbb | tbb
ldrexb_t1      | 1110 1000 1101 nnnn tttt oooo 0100 oooo | | ldrexbh | ldrex:1
ldrexh_t1      | 1110 1000 1101 nnnn tttt oooo 0101 oooo | | ldrexbh | ldrex:2
ldrexd_t1      | 1110 1000 1101 nnnn tttt uuuu 0111 oooo | | ldrexd | ldrex:8
ldrd_literal_t1   | 1110 100P U1W1 1111 tttt uuuu iiiiiiii | P == 0 and W == 0 | ldrd_lit | ls:LDRD:lit
strd_immediate_t1 | 1110 100P U1W0 nnnn tttt uuuu iiiiiiii | P == 0 and W == 0 | strd_imm | ls:STRD
ldrd_immediate_t1 | 1110 100P U1W1 nnnn tttt uuuu iiiiiiii | P == 0 and W == 0 | ldrd_imm | ls:LDRD
# ---- A6.3.11 data-processing (shifted register)
tst_register_t2        | 1110 1010 0001 nnnn z jjj 1111 kk tt mmmm | | dpr_test | dp:TST
and_register_t2        | 1110 1010 000S nnnn z jjj dddd kk tt mmmm | | dpr | dp:AND
bic_register_t2        | 1110 1010 001S nnnn z jjj dddd kk tt mmmm | | dpr | dp:BIC
mov_register_thumb_t3  | 1110 1010 010S 1111 z 000 dddd 00 00 mmmm | | mov_reg_t3 | dp:MOV
rrx_t1                 | 1110 1010 010S 1111 z 000 dddd 00 11 mmmm | | rrx | dp:RRX
lsl_immediate_t2       | 1110 1010 010S 1111 z jjj dddd kk 00 mmmm | | lsl_imm | dp:LSLi
lsr_immediate_t2       | 1110 1010 010S 1111 z jjj dddd kk 01 mmmm | | lsr_imm | dp:LSRi
asr_immediate_t2       | 1110 1010 010S 1111 z jjj dddd kk 10 mmmm | | asr_imm | dp:ASRi
ror_immediate_t1       | 1110 1010 010S 1111 z jjj dddd kk 11 mmmm | | ror_imm | dp:RORi
orr_register_t2        | 1110 1010 010S nnnn z jjj dddd kk tt mmmm | | dpr_orr | dp:ORR
mvn_register_t2        | 1110 1010 011S 1111 z jjj dddd kk tt mmmm | | dpr_mvn | dp:MVN
orn_register_t1        | 1110 1010 011S nnnn z jjj dddd kk tt mmmm | | dpr | dp:ORN
teq_register_t1        | 1110 1010 1001 nnnn z jjj 1111 kk tt mmmm | | dpr_test | dp:TEQ
eor_register_t2        | 1110 1010 100S nnnn z jjj dddd kk tt mmmm | | dpr | dp:EOR
pkh_t1                 | 1110 1010 1100 nnnn z jjj dddd kk T 0 mmmm | | pkh | pkh
cmn_register_t2        | 1110 1011 0001 nnnn z jjj 1111 kk tt mmmm | | dpr_cmp | dp:CMN
add_sp_plus_register_thumb_t3 | 1110 1011 000S 1101 z jjj dddd kk tt mmmm | | dpr_sp_add | dp:ADD:sp
add_register_thumb_t3  | 1110 1011 000S nnnn z jjj dddd kk tt mmmm | | dpr_addsub | dp:ADD
adc_register_t2        | 1110 1011 010S nnnn z jjj dddd kk tt mmmm | | dpr | dp:ADC
sbc_register_t2        | 1110 1011 011S nnnn z jjj dddd kk tt mmmm | | dpr | dp:SBC
cmp_register_t3        | 1110 1011 1011 nnnn z jjj 1111 kk tt mmmm | | dpr_cmp | dp:CMP
sub_sp_minus_register_t1 | 1110 1011 101S 1101 z jjj dddd kk tt mmmm | | dpr_sp_sub | dp:SUB:sp
sub_register_t2        | 1110 1011 101S nnnn z jjj dddd kk tt mmmm | | dpr_addsub | dp:SUB
rsb_register_t1        | 1110 1011 110S nnnn z jjj dddd kk tt mmmm | | dpr | dp:RSB
# ---- A6.3.18 coprocessor, Advanced SIMD, floating point (T1: 1110 11.., T2: 1111 11..)
!adv_simd_dp_t1        | 111x 1111 xxxx xxxx xxxx xxxx xxxx xxxx
~undefined_cp_t1       | 111x 1100 000x xxxx xxxx xxxx xxxx xxxx
!vfp_simd_t1           | 111x 11xx xxxx xxxx xxxx 101x xxxx xxxx
mcrr_mcrr2_t1          | 1110 1100 0100 uuuu tttt pppp kkkk mmmm | | mcrr | cp
mrrc_mrrc2_t1          | 1110 1100 0101 uuuu tttt pppp kkkk mmmm | | mrrc | cp
stc_stc2_t1            | 1110 110P UDW0 nnnn CCCC pppp iiiiiiii | | stc | cp
ldc_ldc2_literal_t1    | 1110 110P UDW1 1111 CCCC pppp iiiiiiii | | ldc_lit | cp
ldc_ldc2_immediate_t1  | 1110 110P UDW1 nnnn CCCC pppp iiiiiiii | | ldc_imm | cp
cdp_cdp2_t1            | 1110 1110 kkkk nnnn CCCC pppp qqq 0 mmmm | | cdp | cp
mcr_mcr2_t1            | 1110 1110 qqq0 nnnn tttt pppp rrr 1 mmmm | | mcr | cp
mrc_mrc2_t1            | 1110 1110 qqq1 nnnn tttt pppp rrr 1 mmmm | | mrc | cp
mcrr_mcrr2_t2          | 1111 1100 0100 uuuu tttt pppp kkkk mmmm | | mcrr | cp
mrrc_mrrc2_t2          | 1111 1100 0101 uuuu tttt pppp kkkk mmmm | | mrrc | cp
stc_stc2_t2            | 1111 110P UDW0 nnnn CCCC pppp iiiiiiii | | stc | cp
ldc_ldc2_literal_t2    | 1111 110P UDW1 1111 CCCC pppp iiiiiiii | | ldc_lit | cp
ldc_ldc2_immediate_t2  | 1111 110P UDW1 nnnn CCCC pppp iiiiiiii | | ldc_imm | cp
cdp_cdp2_t2            | 1111 1110 kkkk nnnn CCCC pppp qqq 0 mmmm | | cdp | cp
mcr_mcr2_t2            | 1111 1110 qqq0 nnnn tttt pppp rrr 1 mmmm | | mcr | cp
mrc_mrc2_t2            | 1111 1110 qqq1 nnnn tttt pppp rrr 1 mmmm | | mrc | cp
# ---- A6.3.1 data-processing (modified immediate)
tst_immediate_t1       | 11110 i 0 0000 1 nnnn 0 jjj 1111 kkkkkkkk | | dpi_test_c | dp:TST
and_immediate_t1       | 11110 i 0 0000 S nnnn 0 jjj dddd kkkkkkkk | | dpi_c | dp:AND
bic_immediate_t1       | 11110 i 0 0001 S nnnn 0 jjj dddd kkkkkkkk | | dpi_c | dp:BIC
mov_immediate_t2       | 11110 i 0 0010 S 1111 0 jjj dddd kkkkkkkk | | dpi_mov_c | dp:MOV
orr_immediate_t1       | 11110 i 0 0010 S nnnn 0 jjj dddd kkkkkkkk | | dpi_c_orr | dp:ORR
mvn_immediate_t1       | 11110 i 0 0011 S 1111 0 jjj dddd kkkkkkkk | | dpi_mov_c | dp:MVN
orn_immediate_t1       | 11110 i 0 0011 S nnnn 0 jjj dddd kkkkkkkk | | dpi_c | dp:ORN
teq_immediate_t1       | 11110 i 0 0100 1 nnnn 0 jjj 1111 kkkkkkkk | | dpi_test_c | dp:TEQ
eor_immediate_t1       | 11110 i 0 0100 S nnnn 0 jjj dddd kkkkkkkk | | dpi_c | dp:EOR
cmn_immediate_t1       | 11110 i 0 1000 1 nnnn 0 jjj 1111 kkkkkkkk | | dpi_cmp | dp:CMN
add_sp_plus_immediate_t3 | 11110 i 0 1000 S 1101 0 jjj dddd kkkkkkkk | | dpi_sp | dp:ADD:sp
add_immediate_thumb_t3 | 11110 i 0 1000 S nnnn 0 jjj dddd kkkkkkkk | | dpi_addsub | dp:ADD
adc_immediate_t1       | 11110 i 0 1010 S nnnn 0 jjj dddd kkkkkkkk | | dpi | dp:ADC
sbc_immediate_t1       | 11110 i 0 1011 S nnnn 0 jjj dddd kkkkkkkk | | dpi | dp:SBC
cmp_immediate_t2       | 11110 i 0 1101 1 nnnn 0 jjj 1111 kkkkkkkk | | dpi_cmp | dp:CMP
sub_sp_minus_immediate_t2 | 11110 i 0 1101 S 1101 0 jjj dddd kkkkkkkk | | dpi_sp | dp:SUB:sp
sub_immediate_thumb_t3 | 11110 i 0 1101 S nnnn 0 jjj dddd kkkkkkkk | | dpi_addsub | dp:SUB
rsb_immediate_t2       | 11110 i 0 1110 S nnnn 0 jjj dddd kkkkkkkk | | dpi | dp:RSB
# ---- A6.3.3 data-processing (plain binary immediate)
adr_t3                 | 11110 i 1 00000 1111 0 jjj dddd kkkkkkkk | | adr_add | adr
add_sp_plus_immediate_t4 | 11110 i 1 00000 1101 0 jjj dddd kkkkkkkk | | addw_sp | dp:ADD:sp
add_immediate_thumb_t4 | 11110 i 1 00000 nnnn 0 jjj dddd kkkkkkkk | | addw | dp:ADD
mov_immediate_t3       | 11110 i 1 00100 hhhh 0 jjj dddd kkkkkkkk | | movw | dp:MOV
adr_t2                 | 11110 i 1 01010 1111 0 jjj dddd kkkkkkkk | | adr_sub | adr
sub_sp_minus_immediate_t3 | 11110 i 1 01010 1101 0 jjj dddd kkkkkkkk | | addw_sp | dp:SUB:sp
sub_immediate_thumb_t4 | 11110 i 1 01010 nnnn 0 jjj dddd kkkkkkkk | | addw | dp:SUB
movt_t1                | 11110 i 1 01100 hhhh 0 jjj dddd kkkkkkkk | | movt | movt
ssat16_t1              | 11110 z 1 10010 nnnn 0 000 dddd 00 zz ssss | | ssat16 | ssat16
ssat_t1                | 11110 z 1 100 h 0 nnnn 0 jjj dddd kk z sssss | | ssat | ssat
sbfx_t1                | 11110 z 1 10100 nnnn 0 jjj dddd kk z wwwww | | bfx | sbfx
bfc_t1                 | 11110 z 1 10110 1111 0 jjj dddd kk z hhhhh | | bfc | bfc
bfi_t1                 | 11110 z 1 10110 nnnn 0 jjj dddd kk z hhhhh | | bfi | bfi
usat16_t1              | 11110 z 1 11010 nnnn 0 000 dddd 00 zz ssss | | usat16 | usat16
usat_t1                | 11110 z 1 110 h 0 nnnn 0 jjj dddd kk z sssss | | usat | usat
ubfx_t1                | 11110 z 1 11100 nnnn 0 jjj dddd kk z wwwww | | bfx | ubfx
# ---- A6.3.4 branches and miscellaneous control
!msr_banked_t1         | 11110 0 1110 0 x xxxx 10 x 0 xxxx xx 1 x xxxx
msr_register_application_t1 | 11110 0 1110 0 0 nnnn 10 z 0 mm 00 zz 0 zzzzz | | msr_app | msr_app
msr_register_system_t1 | 11110 0 1110 0 R nnnn 10 z 0 mmmm zz 0 zzzzz | | msr_sys | msr_sys
nop_t2                 | 11110 0 111010 oooo 10 z 0 z 000 00000000 | | none | nop
yield_t2               | 11110 0 111010 oooo 10 z 0 z 000 00000001 | | none | yield
wfe_t2                 | 11110 0 111010 oooo 10 z 0 z 000 00000010 | | none | wfe
wfi_t2                 | 11110 0 111010 oooo 10 z 0 z 000 00000011 | | none | wfi
sev_t2                 | 11110 0 111010 oooo 10 z 0 z 000 00000100 | | none | sev
!dbg_t1                | 11110 0 111010 xxxx 10 x 0 x 000 1111 xxxx
?unallocated_hint_t2   | 11110 0 111010 xxxx 10 x 0 x 000 xxxxxxxx
cps_thumb_t2           | 11110 0 111010 oooo 10 z 0 z ii M A I F mmmmm | | cps | cps
enterx_leavex_t1       | 11110 0 111011 oooo 10 z 0 oooo 000 J oooo | | enterx | enterx
clrex_t1               | 11110 0 111011 oooo 10 z 0 oooo 0010 oooo | | none | clrex
dsb_t1                 | 11110 0 111011 oooo 10 z 0 oooo 0100 pppp | | dsb | dsb
!dmb_t1                | 11110 0 111011 xxxx 10 x 0 xxxx 0101 xxxx
isb_t1                 | 11110 0 111011 oooo 10 z 0 oooo 0110 pppp | | dsb | isb
bxj_t1                 | 11110 0 111100 mmmm 10 z 0 oooo zzzzzzzz | | bxj | bxj
eret_t1                | 11110 0 111101 oooz 10 z 0 oooo 00000000 | | eret | eret
subs_pc_lr_thumb_t1    | 11110 0 111101 oooz 10 z 0 oooo iiiiiiii | | subs_pc | subs_pc_lr_thumb
!mrs_banked_t1         | 11110 0 11111 x xxxx 10 x 0 xxxx xx 1 x xxxx
mrs_application_t1     | 11110 0 11111 R oooo 10 z 0 dddd zz 0 zzzzz | R == 1 | mrs | mrs
mrs_system_t1          | 11110 0 11111 R oooo 10 z 0 dddd zz 0 zzzzz | | mrs | mrs
!hvc_t1                | 11110 1111110 xxxx 1000 xxxx xxxx xxxx
smc_t1                 | 11110 1111111 iiii 1000 zzzz zzzz zzzz | | smc | smc
~udf_t2                | 11110 1111111 iiii 1010 iiiiiiiiiiii
b_t3                   | 11110 S cccc hhhhhh 10 J 0 K lllllllllll | c in (14, 15) | b_t3 | b_cond
b_t4                   | 11110 S hhhhhhhhhh 10 J 1 K lllllllllll | | b_t4 | b
bl_blx_immediate_t2    | 11110 S hhhhhhhhhh 11 J 0 K llllllllll H | | blx_t2 | bl
bl_blx_immediate_t1    | 11110 S hhhhhhhhhh 11 J 1 K lllllllllll | | bl_t1 | bl
# ---- A6.3.10 store single data item
''' + '\n'.join(_ls) + '''
!adv_simd_ls_t1        | 1111 1001 xxx0 xxxx xxxx xxxx xxxx xxxx
# ---- A6.3.7 load word
ldr_literal_t2         | 1111 1000 U101 1111 tttt iiiiiiiiiiii | | ldr_lit | ls:LDR:lit
ldr_immediate_thumb_t3 | 1111 1000 1101 nnnn tttt iiiiiiiiiiii | | ldr_imm12 | ls:LDR
ldr_register_thumb_t2  | 1111 1000 0101 nnnn tttt 000000 ss mmmm | | ldr_reg | ls:LDR
ldrt_t1                | 1111 1000 0101 nnnn tttt 1110 iiiiiiii | | ldrt | ls:LDRT
pop_thumb_t3           | 1111 1000 0101 1101 tttt 1011 00000100 | | pop_t3 | pop
ldr_immediate_thumb_t4 | 1111 1000 0101 nnnn tttt 1 P U W iiiiiiii | W == 0 and (P == 0 or U == 1) | ldr_imm8 | ls:LDR
# ---- A6.3.8 load halfword, memory hints
?memhint_h_lit         | 1111 100x x011 1111 1111 xxxxxxxxxxxx
ldrh_literal_t1        | 1111 1000 U011 1111 tttt iiiiiiiiiiii | | ldrbh_lit | ls:LDRH:lit
ldrsh_literal_t1       | 1111 1001 U011 1111 tttt iiiiiiiiiiii | | ldrbh_lit | ls:LDRSH:lit
?memhint_h_imm12       | 1111 100x 1011 xxxx 1111 xxxxxxxxxxxx
ldrh_immediate_thumb_t2 | 1111 1000 1011 nnnn tttt iiiiiiiiiiii | | ldrbh_imm12 | ls:LDRH
ldrsh_immediate_t1     | 1111 1001 1011 nnnn tttt iiiiiiiiiiii | | ldrbh_imm12 | ls:LDRSH
?memhint_h_reg         | 1111 100x 0011 xxxx 1111 000000 xx xxxx
ldrh_register_t2       | 1111 1000 0011 nnnn tttt 000000 ss mmmm | | ldrbh_reg | ls:LDRH
ldrsh_register_t2      | 1111 1001 0011 nnnn tttt 000000 ss mmmm | | ldrbh_reg | ls:LDRSH
ldrht_t1               | 1111 1000 0011 nnnn tttt 1110 iiiiiiii | | ldrt | ls:LDRHT
ldrsht_t1              | 1111 1001 0011 nnnn tttt 1110 iiiiiiii | | ldrt | ls:LDRSHT
?memhint_h_imm8        | 1111 100x 0011 xxxx 1111 1100 xxxxxxxx
ldrh_immediate_thumb_t3 | 1111 1000 0011 nnnn tttt 1 P U W iiiiiiii | W == 0 and (P == 0 or U == 1) | ldrbh_imm8 | ls:LDRH
ldrsh_immediate_t2     | 1111 1001 0011 nnnn tttt 1 P U W iiiiiiii | W == 0 and (P == 0 or U == 1) | ldrbh_imm8 | ls:LDRSH
# ---- A6.3.9 load byte, memory hints
pld_literal_t1         | 1111 1000 U001 1111 1111 iiiiiiiiiiii | | pld_lit | pld
ldrb_literal_t1        | 1111 1000 U001 1111 tttt iiiiiiiiiiii | | ldrbh_lit | ls:LDRB:lit
!pli_lit_t3            | 1111 1001 x001 1111 1111 xxxxxxxxxxxx
ldrsb_literal_t1       | 1111 1001 U001 1111 tttt iiiiiiiiiiii | | ldrbh_lit | ls:LDRSB:lit
pld_immediate_t1       | 1111 1000 1001 nnnn 1111 iiiiiiiiiiii | | pld_imm12 | pld
ldrb_immediate_thumb_t2 | 1111 1000 1001 nnnn tttt iiiiiiiiiiii | | ldrbh_imm12 | ls:LDRB
!pli_imm_t1            | 1111 1001 1001 xxxx 1111 xxxxxxxxxxxx
ldrsb_immediate_t1     | 1111 1001 1001 nnnn tttt iiiiiiiiiiii | | ldrbh_imm12 | ls:LDRSB
pld_register_t1        | 1111 1000 0001 nnnn 1111 000000 ss mmmm | | pld_reg | pld
ldrb_register_t2       | 1111 1000 0001 nnnn tttt 000000 ss mmmm | | ldrbh_reg | ls:LDRB
!pli_reg_t1            | 1111 1001 0001 xxxx 1111 000000 xx xxxx
ldrsb_register_t2      | 1111 1001 0001 nnnn tttt 000000 ss mmmm | | ldrbh_reg | ls:LDRSB
ldrbt_t1               | 1111 1000 0001 nnnn tttt 1110 iiiiiiii | | ldrt | ls:LDRBT
ldrsbt_t1              | 1111 1001 0001 nnnn tttt 1110 iiiiiiii | | ldrt | ls:LDRSBT
pld_immediate_t2       | 1111 1000 0001 nnnn 1111 1100 iiiiiiii | | pld_imm8 | pld
ldrb_immediate_thumb_t3 | 1111 1000 0001 nnnn tttt 1 P U W iiiiiiii | W == 0 and (P == 0 or U == 1) | ldrbh_imm8 | ls:LDRB
!pli_imm_t2            | 1111 1001 0001 xxxx 1111 1100 xxxxxxxx
ldrsb_immediate_t2     | 1111 1001 0001 nnnn tttt 1 P U W iiiiiiii | W == 0 and (P == 0 or U == 1) | ldrbh_imm8 | ls:LDRSB
# ---- A6.3.12 data-processing (register)
lsl_register_t2        | 1111 1010 000S nnnn 1111 dddd 0000 mmmm | | shift_reg | dp:LSLr
lsr_register_t2        | 1111 1010 001S nnnn 1111 dddd 0000 mmmm | | shift_reg | dp:LSRr
asr_register_t2        | 1111 1010 010S nnnn 1111 dddd 0000 mmmm | | shift_reg | dp:ASRr
ror_register_t2        | 1111 1010 011S nnnn 1111 dddd 0000 mmmm | | shift_reg | dp:RORr
sxth_t2                | 1111 1010 0000 1111 1111 dddd 1 z rr mmmm | | xt | xt:S:H
sxtah_t1               | 1111 1010 0000 nnnn 1111 dddd 1 z rr mmmm | | xta | xta:S:H
uxth_t2                | 1111 1010 0001 1111 1111 dddd 1 z rr mmmm | | xt | xt:U:H
uxtah_t1               | 1111 1010 0001 nnnn 1111 dddd 1 z rr mmmm | | xta | xta:U:H
sxtb16_t1              | 1111 1010 0010 1111 1111 dddd 1 z rr mmmm | | xt | xt:S:B16
sxtab16_t1             | 1111 1010 0010 nnnn 1111 dddd 1 z rr mmmm | | xta | xta:S:B16
uxtb16_t1              | 1111 1010 0011 1111 1111 dddd 1 z rr mmmm | | xt | xt:U:B16
uxtab16_t1             | 1111 1010 0011 nnnn 1111 dddd 1 z rr mmmm | | xta | xta:U:B16
sxtb_t2                | 1111 1010 0100 1111 1111 dddd 1 z rr mmmm | | xt | xt:S:B
sxtab_t1               | 1111 1010 0100 nnnn 1111 dddd 1 z rr mmmm | | xta | xta:S:B
uxtb_t2                | 1111 1010 0101 1111 1111 dddd 1 z rr mmmm | | xt | xt:U:B
uxtab_t1               | 1111 1010 0101 nnnn 1111 dddd 1 z rr mmmm | | xta | xta:U:B
''' + '\n'.join(_par) + '''
qadd_t1                | 1111 1010 1000 nnnn 1111 dddd 1000 mmmm | | dnm | qadd
qdadd_t1               | 1111 1010 1000 nnnn 1111 dddd 1001 mmmm | | dnm | qdadd
qsub_t1                | 1111 1010 1000 nnnn 1111 dddd 1010 mmmm | | dnm | qsub
qdsub_t1               | 1111 1010 1000 nnnn 1111 dddd 1011 mmmm | | dnm | qdsub
rev_t2                 | 1111 1010 1001 nnnn 1111 dddd 1000 mmmm | | dm_rev | rev
rev16_t2               | 1111 1010 1001 nnnn 1111 dddd 1001 mmmm | | dm_rev | rev16
rbit_t1                | 1111 1010 1001 nnnn 1111 dddd 1010 mmmm | | dm_rev | rbit
revsh_t2               | 1111 1010 1001 nnnn 1111 dddd 1011 mmmm | | dm_rev | revsh
sel_t1                 | 1111 1010 1010 nnnn 1111 dddd 1000 mmmm | | dnm | sel
clz_t1                 | 1111 1010 1011 nnnn 1111 dddd 1000 mmmm | | dm_rev | clz
# ---- A6.3.16 / A6.3.17 multiplies
mul_t2                 | 1111 1011 0000 nnnn 1111 dddd 0000 mmmm | | mul | mul
mla_t1                 | 1111 1011 0000 nnnn aaaa dddd 0000 mmmm | | mla | mla
mls_t1                 | 1111 1011 0000 nnnn aaaa dddd 0001 mmmm | | mls | mls
smul_t1                | 1111 1011 0001 nnnn 1111 dddd 00 N M mmmm | | smul_xy | smulxy
smla_t1                | 1111 1011 0001 nnnn aaaa dddd 00 N M mmmm | | smla_xy | smlaxy
smuad_t1               | 1111 1011 0010 nnnn 1111 dddd 000 M mmmm | | smuad | smuad
smlad_t1               | 1111 1011 0010 nnnn aaaa dddd 000 M mmmm | | smlad | smlad
smulw_t1               | 1111 1011 0011 nnnn 1111 dddd 000 M mmmm | | smulw | smulw
smlaw_t1               | 1111 1011 0011 nnnn aaaa dddd 000 M mmmm | | smlaw | smlaw
smusd_t1               | 1111 1011 0100 nnnn 1111 dddd 000 M mmmm | | smuad | smusd
smlsd_t1               | 1111 1011 0100 nnnn aaaa dddd 000 M mmmm | | smlad | smlsd
smmul_t1               | 1111 1011 0101 nnnn 1111 dddd 000 R mmmm | | smmul | smmul
smmla_t1               | 1111 1011 0101 nnnn aaaa dddd 000 R mmmm | | smmla | smmla
smmls_t1               | 1111 1011 0110 nnnn aaaa dddd 000 R mmmm | | smmls | smmls
usad8_t1               | 1111 1011 0111 nnnn 1111 dddd 0000 mmmm | | dnm | usad8
usada8_t1              | 1111 1011 0111 nnnn aaaa dddd 0000 mmmm | | usada8 | usada8
smull_t1               | 1111 1011 1000 nnnn llll hhhh 0000 mmmm | | mull | smull
sdiv_t1                | 1111 1011 1001 nnnn oooo dddd 1111 mmmm | | div | sdiv
umull_t1               | 1111 1011 1010 nnnn llll hhhh 0000 mmmm | | mull | umull
udiv_t1                | 1111 1011 1011 nnnn oooo dddd 1111 mmmm | | div | udiv
smlal_t1               | 1111 1011 1100 nnnn llll hhhh 0000 mmmm | | mull | smlal
smlalxy_t1             | 1111 1011 1100 nnnn llll hhhh 10 N M mmmm | | smlal_xy | smlalxy
smlald_t1              | 1111 1011 1100 nnnn llll hhhh 110 M mmmm | | smlald | smlald
smlsld_t1              | 1111 1011 1101 nnnn llll hhhh 110 M mmmm | | smlald | smlsld
umlal_t1               | 1111 1011 1110 nnnn llll hhhh 0000 mmmm | | mull | umlal
umaal_t1               | 1111 1011 1110 nnnn llll hhhh 0110 mmmm | | umaal | umaal
'''
