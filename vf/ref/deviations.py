"""Executable deviation models of the recorded known findings: "the reference with this one mechanism
changed".  A failing case is booked under a finding only if the emulator's ENTIRE post-state equals the
deviant reference; any other difference on the same instruction still matches nothing."""
from vf.ref import bits as B


class Deviation:
    def __init__(self, name, rows, ops=None, sem=None):
        self.name = name
        self.rows = set(rows)
        self.ops_fn = ops
        self.sem = sem or {}

    def ops(self, row, ops):
        return self.ops_fn(dict(ops)) if self.ops_fn else ops


def _cbz_ops(o):
    o['imm32'] = o['imm32'] * 2
    return o


def _bfi_sem(cpu, o, row):
    # copies Rn<msbit:lsbit> instead of Rn<(msbit-lsbit):0>
    w = o['msbit'] - o['lsbit'] + 1
    mask = ((1 << w) - 1) << o['lsbit']
    cpu.setR(o['d'], (cpu.R(o['d']) & ~mask) | (cpu.R(o['n']) & mask))


def _push_ops(o):
    o['unaligned_allowed'] = 1
    return o


def _mrs_apsr_sem(cpu, o, row):
    # MRS with R == 0 returns only the APSR bits, also in privileged modes
    cpu.setR(o['d'], cpu.cpsr() & 0xF80F0000)


DEVIATIONS = [
    Deviation('mrs_cpsr_returns_apsr_only', ['mrs_application_a1', 'mrs_application_t1'], sem={'mrs': _mrs_apsr_sem}),
    Deviation('cbz_offset_scaled_by_4', ['cbz_t1'], ops=_cbz_ops),
    Deviation('bfi_copies_rn_msbit_lsbit', ['bfi_a1', 'bfi_t1'], sem={'bfi': _bfi_sem}),
    Deviation('push_t2_unaligned_allowed', ['push_t2'], ops=_push_ops),
]


def for_row(rowname):
    return [d for d in DEVIATIONS if rowname in d.rows]
