"""Reference bit-vector primitives, written from the ARM ARM pseudocode (DDI 0406C, A2.2 / A2.3 /
A5.2.4 / A6.3.2 / A8.4.3) over explicit bit strings ("extended_x = x : Zeros(shift)"), deliberately
NOT with the repository's substring/chain idioms.  A bit string is (value, width) handled as Python
ints with explicit widths."""


def UInt(x, n):
    return x & ((1 << n) - 1)


def SInt(x, n):
    x &= (1 << n) - 1
    return x - (1 << n) if (x >> (n - 1)) & 1 else x


def Bits(i, n):
    """the n-bit string representing integer i (two's complement truncation)"""
    return i % (1 << n)


def ZeroExtend(x, n_from, n_to):
    assert n_to >= n_from
    return x & ((1 << n_from) - 1)


def SignExtend(x, n_from, n_to):
    assert n_to >= n_from
    x &= (1 << n_from) - 1
    top = (x >> (n_from - 1)) & 1
    if top:
        x |= ((1 << (n_to - n_from)) - 1) << n_from
    return x


def bitstr(x, n):
    return format(x & ((1 << n) - 1), '0%db' % n) if n > 0 else ''


def LSL_C(x, n, shift):
    assert shift > 0
    s = bitstr(x, n) + '0' * shift              # extended_x = x : Zeros(shift)
    result = int(s[-n:], 2)                      # extended_x<N-1:0>
    carry = int(s[-(n + 1)], 2) if len(s) > n else 0     # extended_x<N>
    return result, carry


def LSL(x, n, shift):
    assert shift >= 0
    return x & ((1 << n) - 1) if shift == 0 else LSL_C(x, n, shift)[0]


def LSR_C(x, n, shift):
    assert shift > 0
    s = '0' * shift + bitstr(x, n)               # ZeroExtend(x, shift+N)
    # result = extended_x<shift+N-1:shift> ; carry_out = extended_x<shift-1>
    w = shift + n
    result = int(s[w - (shift + n):w - shift], 2)
    carry = int(s[w - shift], 2)
    return result, carry


def LSR(x, n, shift):
    assert shift >= 0
    return x & ((1 << n) - 1) if shift == 0 else LSR_C(x, n, shift)[0]


def ASR_C(x, n, shift):
    assert shift > 0
    b = bitstr(x, n)
    s = b[0] * shift + b                         # SignExtend(x, shift+N)
    w = shift + n
    result = int(s[0:w - shift], 2)
    carry = int(s[w - shift], 2)
    return result, carry


def ASR(x, n, shift):
    assert shift >= 0
    return x & ((1 << n) - 1) if shift == 0 else ASR_C(x, n, shift)[0]


def ROR_C(x, n, shift):
    assert shift != 0
    m = shift % n
    result = LSR(x, n, m) | LSL(x, n, n - m)
    carry = (result >> (n - 1)) & 1
    return result, carry


def ROR(x, n, shift):
    return x & ((1 << n) - 1) if shift == 0 else ROR_C(x, n, shift)[0]


def RRX_C(x, n, carry_in):
    b = bitstr(x, n)
    s = str(carry_in & 1) + b[:-1]               # carry_in : x<N-1:1>
    return int(s, 2), int(b[-1], 2)


def RRX(x, n, carry_in):
    return RRX_C(x, n, carry_in)[0]


SRType_LSL, SRType_LSR, SRType_ASR, SRType_ROR, SRType_RRX = 'LSL', 'LSR', 'ASR', 'ROR', 'RRX'


def DecodeImmShift(type2, imm5):
    if type2 == 0b00:
        return SRType_LSL, imm5
    if type2 == 0b01:
        return SRType_LSR, (32 if imm5 == 0 else imm5)
    if type2 == 0b10:
        return SRType_ASR, (32 if imm5 == 0 else imm5)
    if imm5 == 0:
        return SRType_RRX, 1
    return SRType_ROR, imm5


def DecodeRegShift(type2):
    return (SRType_LSL, SRType_LSR, SRType_ASR, SRType_ROR)[type2]


def Shift_C(value, n, srtype, amount, carry_in):
    assert not (srtype == SRType_RRX and amount != 1)
    if amount == 0:
        return value & ((1 << n) - 1), carry_in
    if srtype == SRType_LSL:
        return LSL_C(value, n, amount)
    if srtype == SRType_LSR:
        return LSR_C(value, n, amount)
    if srtype == SRType_ASR:
        return ASR_C(value, n, amount)
    if srtype == SRType_ROR:
        return ROR_C(value, n, amount)
    return RRX_C(value, n, carry_in)


def Shift(value, n, srtype, amount, carry_in):
    return Shift_C(value, n, srtype, amount, carry_in)[0]


def ARMExpandImm_C(imm12, carry_in):
    unrotated = imm12 & 0xFF
    return Shift_C(unrotated, 32, SRType_ROR, 2 * ((imm12 >> 8) & 0xF), carry_in)


def ARMExpandImm(imm12):
    return ARMExpandImm_C(imm12, 0)[0]


def ThumbExpandImm_C(imm12, carry_in):
    """returns (imm32, carry_out, unpredictable)"""
    if (imm12 >> 10) & 3 == 0:
        b = imm12 & 0xFF
        sel = (imm12 >> 8) & 3
        unpred = sel != 0 and b == 0
        if sel == 0:
            imm32 = b
        elif sel == 1:
            imm32 = (b << 16) | b                     # 00000000 : imm8 : 00000000 : imm8
        elif sel == 2:
            imm32 = (b << 24) | (b << 8)              # imm8 : 00000000 : imm8 : 00000000
        else:
            imm32 = (b << 24) | (b << 16) | (b << 8) | b
        return imm32, carry_in, unpred
    unrotated = 0x80 | (imm12 & 0x7F)                 # ZeroExtend('1':imm12<6:0>, 32)
    imm32, c = ROR_C(unrotated, 32, (imm12 >> 7) & 0x1F)
    return imm32, c, False


def AddWithCarry(x, y, carry_in, n=32):
    mask = (1 << n) - 1
    unsigned_sum = (x & mask) + (y & mask) + carry_in
    signed_sum = SInt(x, n) + SInt(y, n) + carry_in
    result = unsigned_sum & mask
    carry_out = 0 if result == unsigned_sum else 1
    overflow = 0 if SInt(result, n) == signed_sum else 1
    return result, carry_out, overflow


def SignedSatQ(i, n):
    hi = (1 << (n - 1)) - 1
    lo = -(1 << (n - 1))
    if i > hi:
        return Bits(hi, n), True
    if i < lo:
        return Bits(lo, n), True
    return Bits(i, n), False


def UnsignedSatQ(i, n):
    hi = (1 << n) - 1
    if i > hi:
        return hi, True
    if i < 0:
        return 0, True
    return i, False


def SignedSat(i, n):
    return SignedSatQ(i, n)[0]


def UnsignedSat(i, n):
    return UnsignedSatQ(i, n)[0]


def BitCount(x, n=32):
    return bitstr(x, n).count('1')


def CountLeadingZeroBits(x, n=32):
    s = bitstr(x, n)
    return len(s) - len(s.lstrip('0'))


def LowestSetBit(x, n=32):
    s = bitstr(x, n)
    for i in range(n):
        if s[n - 1 - i] == '1':
            return i
    return n


def Align(x, y):
    return y * (x // y)


def BigEndianReverse(value, nbytes):
    assert nbytes in (1, 2, 4, 8)
    return int.from_bytes((value & ((1 << (8 * nbytes)) - 1)).to_bytes(nbytes, 'little'), 'big')


def IsZero(x, n):
    return (x & ((1 << n) - 1)) == 0


def IsOnes(x, n):
    return (x & ((1 << n) - 1)) == (1 << n) - 1
