"""Reference semantics: branches, IT, status-register access, exception-generating and exception-return
instructions, hints (A8 / B9 pseudocode)."""
from vf.ref import bits as B
from vf.ref.model import sem, RefUnpredictable, RefUndefined, RefNotModelled, RefSVC, RefSMC, RefHypTrap, \
    M_HYP, M_USR, M_SYS, M_MON
from vf.ref.sem_mem import _return_from_exception

M32 = 0xFFFFFFFF


@sem('b', 'b_cond')
def b(cpu, o, row):
    cpu.branch_write_pc((cpu.R(15) + o['imm32']) & M32)


@sem('bl')
def bl(cpu, o, row):
    pc = cpu.R(15)
    if cpu.iset() == 'arm':
        cpu.setR(14, pc - 4)
    else:
        cpu.setR(14, (pc & ~1) | 1)
    if o['target_instr_set'] == 'ARM':
        target = (B.Align(pc, 4) + o['imm32']) & M32
        cpu.select_iset('arm')
    else:
        target = (pc + o['imm32']) & M32
        cpu.select_iset('thumb')
    cpu.branch_write_pc(target)


@sem('bx')
def bx(cpu, o, row):
    cpu.bx_write_pc(cpu.R(o['m']))


@sem('blx_reg')
def blx_reg(cpu, o, row):
    target = cpu.R(o['m'])
    pc = cpu.R(15)
    if cpu.iset() == 'arm':
        cpu.setR(14, pc - 4)
    else:
        cpu.setR(14, ((pc - 2) & ~1 & M32) | 1)
    cpu.bx_write_pc(target)


@sem('bxj')
def bxj(cpu, o, row):
    if cpu.have_virt() and not cpu.is_secure() and cpu.mode != M_HYP and (cpu.s['hstr'] >> 17) & 1:
        cpu.unknown.add('hsr')
        raise RefHypTrap()                 # HSTR.TJDBX: BXJ executed in a Non-secure mode other than Hyp is trapped
    if (cpu.s['jmcr'] & 1) == 0:
        cpu.bx_write_pc(cpu.R(o['m']))
    else:
        raise RefNotModelled('Jazelle')


@sem('cbz')
def cbz(cpu, o, row):
    if bool(o['nonzero']) != (cpu.R(o['n']) == 0):
        cpu.branch_write_pc((cpu.R(15) + o['imm32']) & M32)


@sem('tbb')
def tbb(cpu, o, row):
    if o['is_tbh']:
        halfwords = cpu.MemU((cpu.R(o['n']) + ((cpu.R(o['m']) << 1) & M32)) & M32, 2)
    else:
        halfwords = cpu.MemU((cpu.R(o['n']) + cpu.R(o['m'])) & M32, 1)
    cpu.branch_write_pc((cpu.R(15) + 2 * halfwords) & M32)


@sem('it')
def it(cpu, o, row):
    cpu.set_itstate((o['firstcond'] << 4) | o['mask'])


# ---------------------------------------------------------------------------------- exceptions
@sem('svc')
def svc(cpu, o, row):
    raise RefSVC(o['imm32'] & 0xFFFF)


@sem('smc')
def smc(cpu, o, row):
    if cpu.have_sec() and cpu.mode != M_USR:
        if cpu.have_virt() and not cpu.is_secure() and cpu.mode != M_HYP and (cpu.s['hcr'] >> 19) & 1:
            cpu.unknown.add('hsr')
            raise RefHypTrap()
        if (cpu.s['scr'] >> 7) & 1:
            if cpu.is_secure():
                raise RefUnpredictable('SMC with SCR.SCD set in Secure state')
            raise RefUndefined()
        raise RefSMC()
    raise RefUndefined()


@sem('bkpt', 'yield', 'sev', 'dsb', 'isb', 'pld', 'enterx')
def not_modelled(cpu, o, row):
    raise RefNotModelled(row.sem + ': mock hook / not implemented by the emulator')


@sem('cp')
def coprocessor(cpu, o, row):
    """Coproc_Accepted() for the generic coprocessors (B1.11.2): denied -> UNDEFINED (or Hyp trap); accepted -> the
    emulator's back-end is a mock (not modelled)"""
    cp = o['cp']
    if cp in (10, 11, 14, 15):
        raise RefNotModelled('cp%d has its own decode' % cp)
    secure = cpu.is_secure()
    hyp = cpu.mode == M_HYP
    if cpu.have_sec() and not secure and not (cpu.s['nsacr'] >> cp) & 1:
        raise RefUndefined()
    if not (cpu.have_virt() and hyp):
        field = (cpu.s['cpacr'] >> (2 * cp)) & 3
        if field == 0:
            raise RefUndefined()
        if field == 1 and cpu.mode == M_USR:
            raise RefUndefined()
        if field == 2:
            raise RefUnpredictable('CPACR field == 10')
    if cpu.have_sec() and cpu.have_virt() and not secure and (cpu.s['hcptr'] >> cp) & 1:
        if hyp:
            raise RefUndefined()
        cpu.unknown.add('hsr')
        raise RefHypTrap()
    raise RefNotModelled('accepted coprocessor instruction: mock back-end')


@sem('nop', 'clrex')
def nop(cpu, o, row):
    pass


@sem('wfe')
def wfe(cpu, o, row):
    if cpu.s['event_register']:
        cpu.s['event_register'] = False
    else:
        if cpu.have_virt() and not cpu.is_secure() and cpu.mode != M_HYP and (cpu.s['hcr'] >> 14) & 1:
            cpu.unknown.add('hsr')                     # HCR.TWE: trapped only when the WFE would actually wait
            raise RefHypTrap()
        cpu.s['wfe'] = True


@sem('wfi')
def wfi(cpu, o, row):
    if cpu.have_virt() and not cpu.is_secure() and cpu.mode != M_HYP and (cpu.s['hcr'] >> 13) & 1:
        cpu.unknown.add('hsr')                         # HCR.TWI
        raise RefHypTrap()
    cpu.s['wfi'] = True


# ---------------------------------------------------------------------------------- status registers
@sem('mrs')
def mrs(cpu, o, row):
    d = o['d']
    if o.get('read_spsr'):
        if cpu.mode in (M_USR, M_SYS):
            raise RefUnpredictable('MRS SPSR in User/System mode')
        cpu.setR(d, cpu.spsr())
    else:
        cpu.setR(d, cpu.cpsr() & 0xF8FF03DF)
        if cpu.mode == M_USR:
            # E, A, I, F and M are UNKNOWN when read from User mode (B9.3.8)
            cpu.unknown_bits[cpu.rname(d)] = 0x000003DF


@sem('msr_app')
def msr_app(cpu, o, row):
    value = o['imm32'] if 'imm32' in o else cpu.R(o['n'])
    c = cpu.cpsr()
    if o['write_nzcvq']:
        c = (c & ~0xF8000000) | (value & 0xF8000000)
    if o['write_g']:
        c = (c & ~0x000F0000) | (value & 0x000F0000)
    cpu.s['cpsr'] = c


@sem('msr_sys')
def msr_sys(cpu, o, row):
    value = o['imm32'] if 'imm32' in o else cpu.R(o['n'])
    if o['write_spsr']:
        cpu.spsr_write_by_instr(value, o['mask'])
    else:
        cpu.cpsr_write_by_instr(value, o['mask'], False)
        if cpu.mode == M_HYP and cpu.bit(24) and cpu.bit(5):
            raise RefUnpredictable('Hyp mode in ThumbEE state')


@sem('cps')
def cps(cpu, o, row):
    if cpu.mode == M_USR:
        return
    v = cpu.cpsr()
    for bit, aff in ((8, o['affect_a']), (7, o['affect_i']), (6, o['affect_f'])):
        if aff:
            if o['enable']:
                v &= ~(1 << bit)
            if o['disable']:
                v |= 1 << bit
    if o['change_mode']:
        v = (v & ~0x1F) | o['mode']
    cpu.cpsr_write_by_instr(v, 0b1111, False)
    if cpu.mode == M_HYP and cpu.bit(24) and cpu.bit(5):
        raise RefUnpredictable('Hyp mode in ThumbEE state')


@sem('setend')
def setend(cpu, o, row):
    cpu.setbit(9, o['set_bigend'])


SUBS_OPS = {0b0000: lambda n, o, c: n & o, 0b0001: lambda n, o, c: n ^ o,
            0b0010: lambda n, o, c: B.AddWithCarry(n, ~o & M32, 1)[0], 0b0011: lambda n, o, c: B.AddWithCarry(~n & M32, o, 1)[0],
            0b0100: lambda n, o, c: B.AddWithCarry(n, o, 0)[0], 0b0101: lambda n, o, c: B.AddWithCarry(n, o, c)[0],
            0b0110: lambda n, o, c: B.AddWithCarry(n, ~o & M32, c)[0], 0b0111: lambda n, o, c: B.AddWithCarry(~n & M32, o, c)[0],
            0b1100: lambda n, o, c: n | o, 0b1101: lambda n, o, c: o, 0b1110: lambda n, o, c: n & ~o & M32,
            0b1111: lambda n, o, c: ~o & M32}


@sem('subs_pc_lr')
def subs_pc_lr(cpu, o, row):
    if cpu.mode == M_HYP:
        raise RefUndefined()
    if cpu.mode in (M_USR, M_SYS):
        raise RefUnpredictable('SUBS PC, LR in User/System mode')
    if o['register_form']:
        op2 = B.Shift(cpu.R(o['m']), 32, o['shift_t'], o['shift_n'], cpu.C)
    else:
        op2 = o['imm32']
    result = SUBS_OPS[o['opcode']](cpu.R(o['n']), op2, cpu.C) & M32
    _return_from_exception(cpu, result, cpu.spsr())


@sem('subs_pc_lr_thumb')
def subs_pc_lr_thumb(cpu, o, row):
    if cpu.mode == M_HYP:
        raise RefUndefined()
    if cpu.mode in (M_USR, M_SYS):
        raise RefUnpredictable('SUBS PC, LR in User/System mode')
    result = B.AddWithCarry(cpu.R(o['n']), ~o['imm32'] & M32, 1)[0]
    _return_from_exception(cpu, result, cpu.spsr())


@sem('eret')
def eret(cpu, o, row):
    if cpu.mode in (M_USR, M_SYS):
        raise RefUnpredictable('ERET in User/System mode')
    new_pc = cpu.s['elr_hyp'] if cpu.mode == M_HYP else cpu.R(14)
    _return_from_exception(cpu, new_pc, cpu.spsr())
