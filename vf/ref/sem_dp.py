"""Reference semantics: data processing, multiplies, saturating, packed SIMD, bit-field, extend, reversal.
Table-driven by family (A8 pseudocode)."""
from vf.ref import bits as B
from vf.ref.model import sem, RefUnpredictable, RefNotModelled, RefUndefined

M32 = 0xFFFFFFFF


def operand2(cpu, o):
    """(shifted, carry)"""
    if 'imm32' in o:
        c = o.get('carry')
        return o['imm32'] & M32, (cpu.C if c is None else c)
    if 's' in o:
        shift_n = cpu.R(o['s']) & 0xFF
        return B.Shift_C(cpu.R(o['m']), 32, o['shift_t'], shift_n, cpu.C)
    return B.Shift_C(cpu.R(o['m']), 32, o.get('shift_t', 'LSL'), o.get('shift_n', 0), cpu.C)


def write_result(cpu, o, result, flags):
    """flags: callable applying flag updates"""
    d = o['d']
    if d == 15:
        cpu.alu_write_pc(result)
    else:
        cpu.setR(d, result)
        if o.get('setflags'):
            flags()


LOGICAL = {'AND': lambda a, b: a & b, 'EOR': lambda a, b: a ^ b, 'ORR': lambda a, b: a | b,
           'BIC': lambda a, b: a & ~b & M32, 'ORN': lambda a, b: (a | (~b & M32)) & M32}
ARITH = {'ADD': (0, 0, 0), 'ADC': (0, 0, 'C'), 'SUB': (0, 1, 1), 'SBC': (0, 1, 'C'), 'RSB': (1, 0, 1), 'RSC': (1, 0, 'C')}


@sem('dp')
def dp(cpu, o, row):
    parts = row.sem.split(':')
    op = parts[1]
    sp = len(parts) > 2 and parts[2] == 'sp'
    if op in LOGICAL:
        shifted, carry = operand2(cpu, o)
        result = LOGICAL[op](cpu.R(o['n']), shifted) & M32

        def fl():
            cpu.set_nz(result)
            cpu.set_nzcv(c=carry)
        write_result(cpu, o, result, fl)
    elif op in ('MOV', 'MVN'):
        shifted, carry = operand2(cpu, o)
        result = shifted if op == 'MOV' else (~shifted & M32)

        def fl():
            cpu.set_nz(result)
            cpu.set_nzcv(c=carry)
        write_result(cpu, o, result, fl)
    elif op in ('TST', 'TEQ'):
        shifted, carry = operand2(cpu, o)
        result = (cpu.R(o['n']) & shifted) if op == 'TST' else (cpu.R(o['n']) ^ shifted)
        cpu.set_nz(result)
        cpu.set_nzcv(c=carry)
    elif op in ARITH or op in ('CMP', 'CMN'):
        shifted, _ = operand2(cpu, o)
        rn = cpu.R(13) if sp else cpu.R(o['n'])
        inv_n, inv_s, cin = ARITH[{'CMP': 'SUB', 'CMN': 'ADD'}.get(op, op)]
        cin = cpu.C if cin == 'C' else cin
        a = (~rn & M32) if inv_n else rn
        b = (~shifted & M32) if inv_s else shifted
        result, carry, overflow = B.AddWithCarry(a, b, cin)

        def fl():
            cpu.set_nz(result)
            cpu.set_nzcv(c=carry, v=overflow)
        if op in ('CMP', 'CMN'):
            fl()
        else:
            write_result(cpu, o, result, fl)
    elif op in ('LSLi', 'LSRi', 'ASRi', 'RORi', 'RRX'):
        ty = op[:3]
        n = 1 if op == 'RRX' else o['shift_n']
        result, carry = B.Shift_C(cpu.R(o['m']), 32, ty, n, cpu.C)

        def fl():
            cpu.set_nz(result)
            cpu.set_nzcv(c=carry)
        write_result(cpu, o, result, fl)
    elif op in ('LSLr', 'LSRr', 'ASRr', 'RORr'):
        shift_n = cpu.R(o['m']) & 0xFF
        result, carry = B.Shift_C(cpu.R(o['n']), 32, op[:3], shift_n, cpu.C)
        cpu.setR(o['d'], result)
        if o['setflags']:
            cpu.set_nz(result)
            cpu.set_nzcv(c=carry)
    else:
        raise RefNotModelled(op)


@sem('adr')
def adr(cpu, o, row):
    base = B.Align(cpu.R(15), 4)
    result = (base + o['imm32']) if o['add'] else (base - o['imm32'])
    if o['d'] == 15:
        cpu.alu_write_pc(result & M32)
    else:
        cpu.setR(o['d'], result)


@sem('movt')
def movt(cpu, o, row):
    cpu.setR(o['d'], (o['imm16'] << 16) | (cpu.R(o['d']) & 0xFFFF))


# ---------------------------------------------------------------------------------- multiplies
@sem('mul')
def mul(cpu, o, row):
    result = (B.SInt(cpu.R(o['n']), 32) * B.SInt(cpu.R(o['m']), 32)) & M32
    cpu.setR(o['d'], result)
    if o['setflags']:
        cpu.set_nz(result)
        if cpu.arch == 4:
            cpu.flag_unknown('C')


@sem('mla')
def mla(cpu, o, row):
    result = (B.SInt(cpu.R(o['n']), 32) * B.SInt(cpu.R(o['m']), 32) + B.SInt(cpu.R(o['a']), 32)) & M32
    cpu.setR(o['d'], result)
    if o['setflags']:
        cpu.set_nz(result)
        if cpu.arch == 4:
            cpu.flag_unknown('C')


@sem('mls')
def mls(cpu, o, row):
    cpu.setR(o['d'], (B.SInt(cpu.R(o['a']), 32) - B.SInt(cpu.R(o['n']), 32) * B.SInt(cpu.R(o['m']), 32)) & M32)


def _long_result(cpu, o, result):
    result &= (1 << 64) - 1
    cpu.setR(o['d_hi'], result >> 32)
    cpu.setR(o['d_lo'], result & M32)
    if o.get('setflags'):
        cpu.setbit(31, (result >> 63) & 1)
        cpu.setbit(30, int(result == 0))
        if cpu.arch == 4:
            cpu.flag_unknown('C')
            cpu.flag_unknown('V')


@sem('umull')
def umull(cpu, o, row):
    _long_result(cpu, o, cpu.R(o['n']) * cpu.R(o['m']))


@sem('umlal')
def umlal(cpu, o, row):
    _long_result(cpu, o, cpu.R(o['n']) * cpu.R(o['m']) + ((cpu.R(o['d_hi']) << 32) | cpu.R(o['d_lo'])))


@sem('smull')
def smull(cpu, o, row):
    _long_result(cpu, o, B.SInt(cpu.R(o['n']), 32) * B.SInt(cpu.R(o['m']), 32))


@sem('smlal')
def smlal(cpu, o, row):
    acc = B.SInt((cpu.R(o['d_hi']) << 32) | cpu.R(o['d_lo']), 64)
    _long_result(cpu, o, B.SInt(cpu.R(o['n']), 32) * B.SInt(cpu.R(o['m']), 32) + acc)


@sem('umaal')
def umaal(cpu, o, row):
    _long_result(cpu, o, cpu.R(o['n']) * cpu.R(o['m']) + cpu.R(o['d_hi']) + cpu.R(o['d_lo']))


def half(x, high):
    return B.SInt((x >> 16) if high else x, 16)


@sem('smlaxy')
def smlaxy(cpu, o, row):
    r = half(cpu.R(o['n']), o['n_high']) * half(cpu.R(o['m']), o['m_high']) + B.SInt(cpu.R(o['a']), 32)
    cpu.setR(o['d'], r)
    if r != B.SInt(r & M32, 32):
        cpu.set_q()


@sem('smulxy')
def smulxy(cpu, o, row):
    cpu.setR(o['d'], half(cpu.R(o['n']), o['n_high']) * half(cpu.R(o['m']), o['m_high']))


@sem('smlaw')
def smlaw(cpu, o, row):
    r = B.SInt(cpu.R(o['n']), 32) * half(cpu.R(o['m']), o['m_high']) + (B.SInt(cpu.R(o['a']), 32) << 16)
    cpu.setR(o['d'], (r >> 16))
    if (r >> 16) != B.SInt((r >> 16) & M32, 32):
        cpu.set_q()


@sem('smulw')
def smulw(cpu, o, row):
    r = B.SInt(cpu.R(o['n']), 32) * half(cpu.R(o['m']), o['m_high'])
    cpu.setR(o['d'], r >> 16)


@sem('smlalxy')
def smlalxy(cpu, o, row):
    acc = B.SInt((cpu.R(o['d_hi']) << 32) | cpu.R(o['d_lo']), 64)
    _long_result(cpu, dict(o, setflags=0), half(cpu.R(o['n']), o['n_high']) * half(cpu.R(o['m']), o['m_high']) + acc)


def _dual(cpu, o):
    m = cpu.R(o['m'])
    if o['m_swap']:
        m = B.ROR(m, 32, 16)
    n = cpu.R(o['n'])
    return half(n, 0) * half(m, 0), half(n, 1) * half(m, 1)


@sem('smlad', 'smuad', 'smlsd', 'smusd')
def smlad(cpu, o, row):
    p1, p2 = _dual(cpu, o)
    sub = row.sem in ('smlsd', 'smusd')
    acc = B.SInt(cpu.R(o['a']), 32) if 'a' in o else 0
    r = (p1 - p2 if sub else p1 + p2) + acc
    cpu.setR(o['d'], r)
    if r != B.SInt(r & M32, 32):
        cpu.set_q()


@sem('smlald', 'smlsld')
def smlald(cpu, o, row):
    p1, p2 = _dual(cpu, o)
    acc = B.SInt((cpu.R(o['d_hi']) << 32) | cpu.R(o['d_lo']), 64)
    _long_result(cpu, dict(o, setflags=0), (p1 - p2 if row.sem == 'smlsld' else p1 + p2) + acc)


@sem('smmla', 'smmul', 'smmls')
def smmla(cpu, o, row):
    prod = B.SInt(cpu.R(o['n']), 32) * B.SInt(cpu.R(o['m']), 32)
    acc = (B.SInt(cpu.R(o['a']), 32) << 32) if 'a' in o else 0
    r = (acc - prod) if row.sem == 'smmls' else (acc + prod)
    if o['round_']:
        r += 0x80000000
    cpu.setR(o['d'], (r >> 32))


@sem('sdiv')
def sdiv(cpu, o, row):
    n, m = B.SInt(cpu.R(o['n']), 32), B.SInt(cpu.R(o['m']), 32)
    if m == 0:
        if cpu.cfg.get('is_armv7r_profile') and (cpu.s['sctlr'] >> 19) & 1:
            raise RefUndefined('execution')          # GenerateIntegerZeroDivide(): the Undefined Instruction exception (ARMv7-R, SCTLR.DZ = 1)
        r = 0
    else:
        q = abs(n) // abs(m)
        r = -q if (n < 0) != (m < 0) else q          # RoundTowardsZero
    cpu.setR(o['d'], r)


@sem('udiv')
def udiv(cpu, o, row):
    n, m = cpu.R(o['n']), cpu.R(o['m'])
    if m == 0:
        if cpu.cfg.get('is_armv7r_profile') and (cpu.s['sctlr'] >> 19) & 1:
            raise RefUndefined('execution')          # GenerateIntegerZeroDivide(): the Undefined Instruction exception (ARMv7-R, SCTLR.DZ = 1)
        r = 0
    else:
        r = n // m
    cpu.setR(o['d'], r)


# ---------------------------------------------------------------------------------- saturating
def _satq(cpu, i, n=32):
    r, sat = B.SignedSatQ(i, n)
    if sat:
        cpu.set_q()
    return r


@sem('qadd', 'qsub', 'qdadd', 'qdsub')
def qaddsub(cpu, o, row):
    m, n = B.SInt(cpu.R(o['m']), 32), B.SInt(cpu.R(o['n']), 32)
    if row.sem in ('qdadd', 'qdsub'):
        n = B.SInt(_satq(cpu, 2 * n), 32)
    r = (m - n) if row.sem in ('qsub', 'qdsub') else (m + n)
    cpu.setR(o['d'], _satq(cpu, r))


@sem('ssat')
def ssat(cpu, o, row):
    operand = B.SInt(B.Shift(cpu.R(o['n']), 32, o['shift_t'], o['shift_n'], cpu.C), 32)
    r, sat = B.SignedSatQ(operand, o['saturate_to'])
    cpu.setR(o['d'], B.SignExtend(r, o['saturate_to'], 32))
    if sat:
        cpu.set_q()


@sem('usat')
def usat(cpu, o, row):
    operand = B.SInt(B.Shift(cpu.R(o['n']), 32, o['shift_t'], o['shift_n'], cpu.C), 32)
    r, sat = B.UnsignedSatQ(operand, o['saturate_to'])
    cpu.setR(o['d'], r)
    if sat:
        cpu.set_q()


@sem('ssat16')
def ssat16(cpu, o, row):
    n = cpu.R(o['n'])
    r1, s1 = B.SignedSatQ(B.SInt(n & 0xFFFF, 16), o['saturate_to'])
    r2, s2 = B.SignedSatQ(B.SInt(n >> 16, 16), o['saturate_to'])
    cpu.setR(o['d'], (B.SignExtend(r2, o['saturate_to'], 16) << 16) | B.SignExtend(r1, o['saturate_to'], 16))
    if s1 or s2:
        cpu.set_q()


@sem('usat16')
def usat16(cpu, o, row):
    n = cpu.R(o['n'])
    r1, s1 = B.UnsignedSatQ(B.SInt(n & 0xFFFF, 16), o['saturate_to'])
    r2, s2 = B.UnsignedSatQ(B.SInt(n >> 16, 16), o['saturate_to'])
    cpu.setR(o['d'], (r2 << 16) | r1)
    if s1 or s2:
        cpu.set_q()


# ---------------------------------------------------------------------------------- parallel add/sub
def lanes(x, width):
    return [(x >> (i * width)) & ((1 << width) - 1) for i in range(32 // width)]


@sem('par')
def par(cpu, o, row):
    _, pfx, op = row.sem.split(':')
    n, m = cpu.R(o['n']), cpu.R(o['m'])
    signed = pfx in ('S', 'Q', 'SH')
    width = 8 if op.endswith('8') else 16
    ln, lm = lanes(n, width), lanes(m, width)
    conv = (lambda v: B.SInt(v, width)) if signed else (lambda v: v)
    ln, lm = [conv(v) for v in ln], [conv(v) for v in lm]
    if op in ('ADD16', 'ADD8'):
        res = [a + b for a, b in zip(ln, lm)]
        kinds = ['add'] * len(res)
    elif op in ('SUB16', 'SUB8'):
        res = [a - b for a, b in zip(ln, lm)]
        kinds = ['sub'] * len(res)
    elif op == 'ASX':           # diff = n.lo - m.hi ; sum = n.hi + m.lo
        res = [ln[0] - lm[1], ln[1] + lm[0]]
        kinds = ['sub', 'add']
    elif op == 'SAX':           # sum = n.lo + m.hi ; diff = n.hi - m.lo
        res = [ln[0] + lm[1], ln[1] - lm[0]]
        kinds = ['add', 'sub']
    else:
        raise RefNotModelled(op)
    out = 0
    ge = 0
    for i, (r, k) in enumerate(zip(res, kinds)):
        if pfx in ('S', 'U'):
            v = r & ((1 << width) - 1)
            if pfx == 'S':
                g = r >= 0
            else:
                g = (r >= (1 << width)) if k == 'add' else (r >= 0)
            if g:
                ge |= (0b11 if width == 16 else 1) << (i * (2 if width == 16 else 1))
        elif pfx == 'Q':
            v = B.SignedSat(r, width)
        elif pfx == 'UQ':
            v = B.UnsignedSat(r, width)
        else:                   # SH / UH: halving
            v = (r >> 1) & ((1 << width) - 1)
        out |= (v & ((1 << width) - 1)) << (i * width)
    cpu.setR(o['d'], out)
    if pfx in ('S', 'U'):
        cpu.set_ge(ge)


@sem('sel')
def sel(cpu, o, row):
    n, m, ge = cpu.R(o['n']), cpu.R(o['m']), cpu.ge()
    out = 0
    for i in range(4):
        src = n if (ge >> i) & 1 else m
        out |= src & (0xFF << (8 * i))
    cpu.setR(o['d'], out)


@sem('usad8', 'usada8')
def usad8(cpu, o, row):
    n, m = lanes(cpu.R(o['n']), 8), lanes(cpu.R(o['m']), 8)
    r = sum(abs(a - b) for a, b in zip(n, m))
    if 'a' in o:
        r += cpu.R(o['a'])
    cpu.setR(o['d'], r)


@sem('pkh')
def pkh(cpu, o, row):
    op2 = B.Shift(cpu.R(o['m']), 32, o['shift_t'], o['shift_n'], cpu.C)
    n = cpu.R(o['n'])
    lo = (op2 if o['tb_form'] else n) & 0xFFFF
    hi = (n if o['tb_form'] else op2) & 0xFFFF0000
    cpu.setR(o['d'], hi | lo)


@sem('xt', 'xta')
def xt(cpu, o, row):
    _, sg, what = row.sem.split(':')
    rot = B.ROR(cpu.R(o['m']), 32, o['rotation'])
    add = cpu.R(o['n']) if 'n' in o else 0
    ext = (lambda v, w: B.SInt(v, w)) if sg == 'S' else (lambda v, w: v)
    if what == 'B':
        r = add + ext(rot & 0xFF, 8)
    elif what == 'H':
        r = add + ext(rot & 0xFFFF, 16)
    else:
        lo = ((add & 0xFFFF) + ext(rot & 0xFF, 8)) & 0xFFFF
        hi = (((add >> 16) & 0xFFFF) + ext((rot >> 16) & 0xFF, 8)) & 0xFFFF
        r = (hi << 16) | lo
    cpu.setR(o['d'], r)


@sem('rev')
def rev(cpu, o, row):
    cpu.setR(o['d'], int.from_bytes(cpu.R(o['m']).to_bytes(4, 'little'), 'big'))


@sem('rev16')
def rev16(cpu, o, row):
    b = cpu.R(o['m']).to_bytes(4, 'little')
    cpu.setR(o['d'], int.from_bytes(bytes([b[1], b[0], b[3], b[2]]), 'little'))


@sem('revsh')
def revsh(cpu, o, row):
    b = cpu.R(o['m']).to_bytes(4, 'little')
    cpu.setR(o['d'], B.SignExtend((b[0] << 8) | b[1], 16, 32))


@sem('rbit')
def rbit(cpu, o, row):
    cpu.setR(o['d'], int(B.bitstr(cpu.R(o['m']), 32)[::-1], 2))


@sem('clz')
def clz(cpu, o, row):
    cpu.setR(o['d'], B.CountLeadingZeroBits(cpu.R(o['m']), 32))


@sem('sbfx')
def sbfx(cpu, o, row):
    msb = o['lsbit'] + o['widthminus1']
    v = (cpu.R(o['n']) >> o['lsbit']) & ((1 << (o['widthminus1'] + 1)) - 1)
    cpu.setR(o['d'], B.SignExtend(v, o['widthminus1'] + 1, 32))


@sem('ubfx')
def ubfx(cpu, o, row):
    cpu.setR(o['d'], (cpu.R(o['n']) >> o['lsbit']) & ((1 << (o['widthminus1'] + 1)) - 1))


@sem('bfc')
def bfc(cpu, o, row):
    w = o['msbit'] - o['lsbit'] + 1
    cpu.setR(o['d'], cpu.R(o['d']) & ~(((1 << w) - 1) << o['lsbit']))


@sem('bfi')
def bfi(cpu, o, row):
    w = o['msbit'] - o['lsbit'] + 1
    mask = ((1 << w) - 1) << o['lsbit']
    cpu.setR(o['d'], (cpu.R(o['d']) & ~mask) | ((cpu.R(o['n']) << o['lsbit']) & mask))
