"""ARM instruction set encoding table (DDI 0406C chapter A5 + the encoding diagrams of A8/B9).
Row names are the repository's concrete module names only so that class selection can be compared;
patterns, SEE guards and operand decoders are transcribed from the manual."""
from vf.ref.spec import Table, unpred, undef
from vf.ref import bits as B

D = {}


def dec(name):
    def reg(fn):
        D[name] = fn
        return fn
    return reg


def bc(x):
    return bin(x).count('1')


# ------------------------------------------------------------------ data processing
@dec('dp_reg')
def _(f, x):
    st, sn = B.DecodeImmShift(f.t, f.i)
    return dict(d=f.d, n=f.n, m=f.m, setflags=f.S, shift_t=st, shift_n=sn)


@dec('dp_reg_nod')          # TST TEQ CMP CMN
def _(f, x):
    st, sn = B.DecodeImmShift(f.t, f.i)
    return dict(n=f.n, m=f.m, shift_t=st, shift_n=sn)


@dec('dp_reg_non')          # MVN
def _(f, x):
    st, sn = B.DecodeImmShift(f.t, f.i)
    return dict(d=f.d, m=f.m, setflags=f.S, shift_t=st, shift_n=sn)


@dec('dp_sp_reg')           # ADD/SUB (SP plus/minus register)
def _(f, x):
    st, sn = B.DecodeImmShift(f.t, f.i)
    return dict(d=f.d, m=f.m, setflags=f.S, shift_t=st, shift_n=sn)


@dec('mov_reg')
def _(f, x):
    return dict(d=f.d, m=f.m, setflags=f.S)


def _mk_shift_imm(ty):
    def fn(f, x):
        st, sn = B.DecodeImmShift(ty, f.i)
        return dict(d=f.d, m=f.m, setflags=f.S, shift_n=sn)
    return fn


for _n, _ty in (('lsl_imm', 0), ('lsr_imm', 1), ('asr_imm', 2), ('ror_imm', 3)):
    D[_n] = _mk_shift_imm(_ty)


@dec('rrx')
def _(f, x):
    return dict(d=f.d, m=f.m, setflags=f.S)


@dec('shift_reg')           # LSL/LSR/ASR/ROR (register): Rm at 11:8 holds the amount, Rn at 3:0 the value
def _(f, x):
    unpred(f.d == 15 or f.n == 15 or f.m == 15)
    return dict(d=f.d, n=f.n, m=f.m, setflags=f.S)


@dec('dp_rsr')
def _(f, x):
    unpred(f.d == 15 or f.n == 15 or f.m == 15 or f.s == 15)
    return dict(d=f.d, n=f.n, m=f.m, s=f.s, setflags=f.S, shift_t=B.DecodeRegShift(f.t))


@dec('dp_rsr_nod')
def _(f, x):
    unpred(f.n == 15 or f.m == 15 or f.s == 15)
    return dict(n=f.n, m=f.m, s=f.s, shift_t=B.DecodeRegShift(f.t))


@dec('dp_rsr_non')
def _(f, x):
    unpred(f.d == 15 or f.m == 15 or f.s == 15)
    return dict(d=f.d, m=f.m, s=f.s, setflags=f.S, shift_t=B.DecodeRegShift(f.t))


@dec('dp_imm')              # arithmetic: carry not needed
def _(f, x):
    return dict(d=f.d, n=f.n, setflags=f.S, imm32=B.ARMExpandImm(f.i))


@dec('dp_imm_c')            # logical: shifter carry-out
def _(f, x):
    imm32, c = B.ARMExpandImm_C(f.i, x.C)
    return dict(d=f.d, n=f.n, setflags=f.S, imm32=imm32, carry=c)


@dec('dp_imm_nod')          # CMP CMN
def _(f, x):
    return dict(n=f.n, imm32=B.ARMExpandImm(f.i))


@dec('dp_imm_nod_c')        # TST TEQ
def _(f, x):
    imm32, c = B.ARMExpandImm_C(f.i, x.C)
    return dict(n=f.n, imm32=imm32, carry=c)


@dec('dp_imm_non_c')        # MOV MVN
def _(f, x):
    imm32, c = B.ARMExpandImm_C(f.i, x.C)
    return dict(d=f.d, setflags=f.S, imm32=imm32, carry=c)


@dec('dp_sp_imm')
def _(f, x):
    return dict(d=f.d, setflags=f.S, imm32=B.ARMExpandImm(f.i))


@dec('adr_add')
def _(f, x):
    return dict(d=f.d, imm32=B.ARMExpandImm(f.i), add=1)


@dec('adr_sub')
def _(f, x):
    return dict(d=f.d, imm32=B.ARMExpandImm(f.i), add=0)


@dec('movw')
def _(f, x):
    unpred(f.d == 15)
    return dict(d=f.d, setflags=0, imm32=(f.j << 12) | f.i, carry=None)


@dec('movt')
def _(f, x):
    unpred(f.d == 15)
    return dict(d=f.d, imm16=(f.j << 12) | f.i)


@dec('subs_pc_imm')
def _(f, x):
    return dict(register_form=0, n=f.n, opcode=f.q, imm32=B.ARMExpandImm(f.i))


@dec('subs_pc_reg')
def _(f, x):
    st, sn = B.DecodeImmShift(f.t, f.i)
    return dict(register_form=1, n=f.n, opcode=f.q, m=f.m, shift_t=st, shift_n=sn)


# ------------------------------------------------------------------ multiplies
@dec('mul')
def _(f, x):
    unpred(f.d == 15 or f.n == 15 or f.m == 15)
    unpred(x.arch < 6 and f.d == f.n)
    return dict(d=f.d, n=f.n, m=f.m, setflags=f.S)


@dec('mla')
def _(f, x):
    unpred(f.d == 15 or f.n == 15 or f.m == 15 or f.a == 15)
    unpred(x.arch < 6 and f.d == f.n)
    return dict(d=f.d, n=f.n, m=f.m, a=f.a, setflags=f.S)


@dec('mls')
def _(f, x):
    unpred(f.d == 15 or f.n == 15 or f.m == 15 or f.a == 15)
    return dict(d=f.d, n=f.n, m=f.m, a=f.a)


@dec('umaal')
def _(f, x):
    unpred(f.l == 15 or f.h == 15 or f.n == 15 or f.m == 15 or f.h == f.l)
    return dict(d_lo=f.l, d_hi=f.h, n=f.n, m=f.m)


@dec('mull')
def _(f, x):
    unpred(f.l == 15 or f.h == 15 or f.n == 15 or f.m == 15 or f.h == f.l)
    unpred(x.arch < 6 and (f.h == f.n or f.l == f.n))
    return dict(d_lo=f.l, d_hi=f.h, n=f.n, m=f.m, setflags=f.S)


@dec('sat_addsub')
def _(f, x):
    unpred(f.d == 15 or f.n == 15 or f.m == 15)
    return dict(d=f.d, n=f.n, m=f.m)


@dec('smla_xy')
def _(f, x):
    unpred(f.d == 15 or f.n == 15 or f.m == 15 or f.a == 15)
    return dict(d=f.d, n=f.n, m=f.m, a=f.a, n_high=f.N, m_high=f.M)


@dec('smlaw')
def _(f, x):
    unpred(f.d == 15 or f.n == 15 or f.m == 15 or f.a == 15)
    return dict(d=f.d, n=f.n, m=f.m, a=f.a, m_high=f.M)


@dec('smulw')
def _(f, x):
    unpred(f.d == 15 or f.n == 15 or f.m == 15)
    return dict(d=f.d, n=f.n, m=f.m, m_high=f.M)


@dec('smlal_xy')
def _(f, x):
    unpred(f.l == 15 or f.h == 15 or f.n == 15 or f.m == 15 or f.h == f.l)
    return dict(d_lo=f.l, d_hi=f.h, n=f.n, m=f.m, n_high=f.N, m_high=f.M)


@dec('smul_xy')
def _(f, x):
    unpred(f.d == 15 or f.n == 15 or f.m == 15)
    return dict(d=f.d, n=f.n, m=f.m, n_high=f.N, m_high=f.M)


@dec('smlad')               # SMLAD SMLSD
def _(f, x):
    unpred(f.d == 15 or f.n == 15 or f.m == 15)
    return dict(d=f.d, n=f.n, m=f.m, a=f.a, m_swap=f.M)


@dec('smuad')               # SMUAD SMUSD
def _(f, x):
    unpred(f.d == 15 or f.n == 15 or f.m == 15)
    return dict(d=f.d, n=f.n, m=f.m, m_swap=f.M)


@dec('smlald')
def _(f, x):
    unpred(f.l == 15 or f.h == 15 or f.n == 15 or f.m == 15 or f.h == f.l)
    return dict(d_lo=f.l, d_hi=f.h, n=f.n, m=f.m, m_swap=f.M)


@dec('smmla')               # SMMLA SMMLS
def _(f, x):
    unpred(f.d == 15 or f.n == 15 or f.m == 15)
    return dict(d=f.d, n=f.n, m=f.m, a=f.a, round_=f.R)


@dec('smmls')
def _(f, x):
    unpred(f.d == 15 or f.n == 15 or f.m == 15 or f.a == 15)
    return dict(d=f.d, n=f.n, m=f.m, a=f.a, round_=f.R)


@dec('smmul')
def _(f, x):
    unpred(f.d == 15 or f.n == 15 or f.m == 15)
    return dict(d=f.d, n=f.n, m=f.m, round_=f.R)


@dec('div')
def _(f, x):
    unpred(f.d == 15 or f.n == 15 or f.m == 15)
    return dict(d=f.d, n=f.n, m=f.m)


# ------------------------------------------------------------------ media
@dec('dnm')                 # parallel add/sub, SEL, USAD8
def _(f, x):
    unpred(f.d == 15 or f.n == 15 or f.m == 15)
    return dict(d=f.d, n=f.n, m=f.m)


@dec('usada8')
def _(f, x):
    unpred(f.d == 15 or f.n == 15 or f.m == 15)
    return dict(d=f.d, n=f.n, m=f.m, a=f.a)


@dec('pkh')
def _(f, x):
    unpred(f.d == 15 or f.n == 15 or f.m == 15)
    st, sn = B.DecodeImmShift(f.T << 1, f.i)
    return dict(d=f.d, n=f.n, m=f.m, tb_form=f.T, shift_t=st, shift_n=sn)


@dec('xta')                 # SXTAB16 SXTAB SXTAH UXTAB16 UXTAB UXTAH
def _(f, x):
    unpred(f.d == 15 or f.m == 15)
    return dict(d=f.d, n=f.n, m=f.m, rotation=f.r * 8)


@dec('xt')                  # SXTB16 ...
def _(f, x):
    unpred(f.d == 15 or f.m == 15)
    return dict(d=f.d, m=f.m, rotation=f.r * 8)


@dec('ssat')
def _(f, x):
    unpred(f.d == 15 or f.n == 15)
    st, sn = B.DecodeImmShift(f.h << 1, f.i)
    return dict(d=f.d, n=f.n, saturate_to=f.s + 1, shift_t=st, shift_n=sn)


@dec('usat')
def _(f, x):
    unpred(f.d == 15 or f.n == 15)
    st, sn = B.DecodeImmShift(f.h << 1, f.i)
    return dict(d=f.d, n=f.n, saturate_to=f.s, shift_t=st, shift_n=sn)


@dec('ssat16')
def _(f, x):
    unpred(f.d == 15 or f.n == 15)
    return dict(d=f.d, n=f.n, saturate_to=f.s + 1)


@dec('usat16')
def _(f, x):
    unpred(f.d == 15 or f.n == 15)
    return dict(d=f.d, n=f.n, saturate_to=f.s)


@dec('dm')                  # REV REV16 REVSH RBIT CLZ
def _(f, x):
    unpred(f.d == 15 or f.m == 15)
    return dict(d=f.d, m=f.m)


@dec('sbfx')                # SBFX UBFX
def _(f, x):
    unpred(f.d == 15 or f.n == 15)
    unpred(f.l + f.w > 31)
    return dict(d=f.d, n=f.n, lsbit=f.l, widthminus1=f.w)


@dec('bfc')
def _(f, x):
    unpred(f.d == 15)
    unpred(f.h < f.l)
    return dict(d=f.d, msbit=f.h, lsbit=f.l)


@dec('bfi')
def _(f, x):
    unpred(f.d == 15)
    unpred(f.h < f.l)
    return dict(d=f.d, n=f.n, msbit=f.h, lsbit=f.l)


# ------------------------------------------------------------------ single loads and stores
def ls_common(f, imm32, is_load, byte_or_half=False, allow_t15=False):
    index, add, wback = f.P, f.U, (f.P == 0 or f.W == 1)
    return index, add, wback


@dec('str_imm')
def _(f, x):
    index, add, wback = f.P, f.U, int(f.P == 0 or f.W == 1)
    unpred(wback and (f.n == 15 or f.n == f.t))
    return dict(t=f.t, n=f.n, imm32=f.i, index=index, add=add, wback=wback)


@dec('ldr_imm')
def _(f, x):
    index, add, wback = f.P, f.U, int(f.P == 0 or f.W == 1)
    unpred(wback and f.n == f.t)
    return dict(t=f.t, n=f.n, imm32=f.i, index=index, add=add, wback=wback)


@dec('strb_imm')            # STRB / LDRB immediate: Rt != PC
def _(f, x):
    index, add, wback = f.P, f.U, int(f.P == 0 or f.W == 1)
    unpred(f.t == 15)
    unpred(wback and (f.n == 15 or f.n == f.t))
    return dict(t=f.t, n=f.n, imm32=f.i, index=index, add=add, wback=wback)


@dec('ldrb_imm')
def _(f, x):
    index, add, wback = f.P, f.U, int(f.P == 0 or f.W == 1)
    unpred(f.t == 15 or (wback and f.n == f.t))
    return dict(t=f.t, n=f.n, imm32=f.i, index=index, add=add, wback=wback)


@dec('ldr_lit')
def _(f, x):
    unpred(f.P == f.W)
    return dict(t=f.t, imm32=f.i, add=f.U)


@dec('ldrb_lit')
def _(f, x):
    unpred(f.P == f.W)
    unpred(f.t == 15)
    return dict(t=f.t, imm32=f.i, add=f.U)


@dec('str_reg')
def _(f, x):
    index, add, wback = f.P, f.U, int(f.P == 0 or f.W == 1)
    st, sn = B.DecodeImmShift(f.s, f.i)
    unpred(f.m == 15)
    unpred(wback and (f.n == 15 or f.n == f.t))
    unpred(x.arch < 6 and wback and f.m == f.n)
    return dict(t=f.t, n=f.n, m=f.m, index=index, add=add, wback=wback, shift_t=st, shift_n=sn)


@dec('ldr_reg')
def _(f, x):
    index, add, wback = f.P, f.U, int(f.P == 0 or f.W == 1)
    st, sn = B.DecodeImmShift(f.s, f.i)
    unpred(f.m == 15)
    unpred(wback and (f.n == 15 or f.n == f.t))
    unpred(x.arch < 6 and wback and f.m == f.n)
    return dict(t=f.t, n=f.n, m=f.m, index=index, add=add, wback=wback, shift_t=st, shift_n=sn)


@dec('strb_reg')            # STRB / LDRB register: Rt != PC
def _(f, x):
    index, add, wback = f.P, f.U, int(f.P == 0 or f.W == 1)
    st, sn = B.DecodeImmShift(f.s, f.i)
    unpred(f.t == 15 or f.m == 15)
    unpred(wback and (f.n == 15 or f.n == f.t))
    unpred(x.arch < 6 and wback and f.m == f.n)
    return dict(t=f.t, n=f.n, m=f.m, index=index, add=add, wback=wback, shift_t=st, shift_n=sn)


@dec('ldrt_a1')             # LDRT STRT LDRBT STRBT immediate post-indexed
def _(f, x):
    unpred(f.t == 15 or f.n == 15 or f.n == f.t)
    return dict(t=f.t, n=f.n, post_index=1, add=f.U, register_form=0, imm32=f.i)


@dec('strt_a1')             # STRT only: Rt may be the PC
def _(f, x):
    unpred(f.n == 15 or f.n == f.t)
    return dict(t=f.t, n=f.n, post_index=1, add=f.U, register_form=0, imm32=f.i)


@dec('strt_a2')
def _(f, x):
    unpred(f.n == 15 or f.n == f.t or f.m == 15)
    unpred(x.arch < 6 and f.m == f.n)
    st, sn = B.DecodeImmShift(f.s, f.i)
    return dict(t=f.t, n=f.n, m=f.m, post_index=1, add=f.U, register_form=1, shift_t=st, shift_n=sn)


@dec('ldrt_a2')
def _(f, x):
    unpred(f.t == 15 or f.n == 15 or f.n == f.t or f.m == 15)
    unpred(x.arch < 6 and f.m == f.n)
    st, sn = B.DecodeImmShift(f.s, f.i)
    return dict(t=f.t, n=f.n, m=f.m, post_index=1, add=f.U, register_form=1, shift_t=st, shift_n=sn)


# extra load/store: halfword, signed, dual
@dec('strh_imm')
def _(f, x):
    index, add, wback = f.P, f.U, int(f.P == 0 or f.W == 1)
    unpred(f.t == 15)
    unpred(wback and (f.n == 15 or f.n == f.t))
    return dict(t=f.t, n=f.n, imm32=(f.h << 4) | f.l, index=index, add=add, wback=wback)


@dec('ldrh_imm')            # LDRH LDRSB LDRSH immediate
def _(f, x):
    index, add, wback = f.P, f.U, int(f.P == 0 or f.W == 1)
    unpred(f.t == 15 or (wback and f.n == f.t))
    return dict(t=f.t, n=f.n, imm32=(f.h << 4) | f.l, index=index, add=add, wback=wback)


@dec('ldrh_lit')
def _(f, x):
    unpred(f.P == f.W)
    unpred(f.t == 15)
    return dict(t=f.t, imm32=(f.h << 4) | f.l, add=f.U)


@dec('strh_reg')            # STRH LDRH LDRSB LDRSH register
def _(f, x):
    index, add, wback = f.P, f.U, int(f.P == 0 or f.W == 1)
    unpred(f.t == 15 or f.m == 15)
    unpred(wback and (f.n == 15 or f.n == f.t))
    unpred(x.arch < 6 and wback and f.m == f.n)
    return dict(t=f.t, n=f.n, m=f.m, index=index, add=add, wback=wback, shift_t='LSL', shift_n=0)


@dec('ldrd_imm')
def _(f, x):
    unpred(f.t & 1)
    index, add, wback = f.P, f.U, int(f.P == 0 or f.W == 1)
    unpred(f.P == 0 and f.W == 1)
    unpred(wback and (f.n == f.t or f.n == f.t + 1))
    unpred(f.t + 1 == 15)
    return dict(t=f.t, t2=f.t + 1, n=f.n, imm32=(f.h << 4) | f.l, index=index, add=add, wback=wback)


@dec('ldrd_lit')
def _(f, x):
    unpred(f.t & 1)
    unpred(f.t + 1 == 15)
    return dict(t=f.t, t2=f.t + 1, imm32=(f.h << 4) | f.l, add=f.U)


@dec('ldrd_reg')
def _(f, x):
    unpred(f.t & 1)
    index, add, wback = f.P, f.U, int(f.P == 0 or f.W == 1)
    unpred(f.P == 0 and f.W == 1)
    unpred(f.t + 1 == 15 or f.m == 15 or f.m == f.t or f.m == f.t + 1)
    unpred(wback and (f.n == 15 or f.n == f.t or f.n == f.t + 1))
    unpred(x.arch < 6 and wback and f.m == f.n)
    return dict(t=f.t, t2=f.t + 1, n=f.n, m=f.m, index=index, add=add, wback=wback)


@dec('strd_imm')
def _(f, x):
    unpred(f.t & 1)
    index, add, wback = f.P, f.U, int(f.P == 0 or f.W == 1)
    unpred(f.P == 0 and f.W == 1)
    unpred(wback and (f.n == 15 or f.n == f.t or f.n == f.t + 1))
    unpred(f.t + 1 == 15)
    return dict(t=f.t, t2=f.t + 1, n=f.n, imm32=(f.h << 4) | f.l, index=index, add=add, wback=wback)


@dec('strd_reg')
def _(f, x):
    unpred(f.t & 1)
    index, add, wback = f.P, f.U, int(f.P == 0 or f.W == 1)
    unpred(f.P == 0 and f.W == 1)
    unpred(f.t + 1 == 15 or f.m == 15)
    unpred(wback and (f.n == 15 or f.n == f.t or f.n == f.t + 1))
    unpred(x.arch < 6 and wback and f.m == f.n)
    return dict(t=f.t, t2=f.t + 1, n=f.n, m=f.m, index=index, add=add, wback=wback)


@dec('ldrht_a1')            # LDRHT STRHT LDRSBT LDRSHT immediate
def _(f, x):
    unpred(f.t == 15 or f.n == 15 or f.n == f.t)
    return dict(t=f.t, n=f.n, post_index=1, add=f.U, register_form=0, imm32=(f.h << 4) | f.l)


@dec('ldrht_a2')
def _(f, x):
    unpred(f.t == 15 or f.n == 15 or f.n == f.t or f.m == 15)
    return dict(t=f.t, n=f.n, m=f.m, post_index=1, add=f.U, register_form=1)


# exclusives
@dec('strex')
def _(f, x):
    unpred(f.d == 15 or f.t == 15 or f.n == 15)
    unpred(f.d == f.n or f.d == f.t)
    return dict(d=f.d, t=f.t, n=f.n, imm32=0)


@dec('ldrex')
def _(f, x):
    unpred(f.t == 15 or f.n == 15)
    return dict(t=f.t, n=f.n, imm32=0)


@dec('strexbh')
def _(f, x):
    unpred(f.d == 15 or f.t == 15 or f.n == 15)
    unpred(f.d == f.n or f.d == f.t)
    return dict(d=f.d, t=f.t, n=f.n)


@dec('ldrexbh')
def _(f, x):
    unpred(f.t == 15 or f.n == 15)
    return dict(t=f.t, n=f.n)


@dec('strexd')
def _(f, x):
    unpred(f.d == 15 or (f.t & 1) or f.t == 14 or f.n == 15)
    unpred(f.d == f.n or f.d == f.t or f.d == f.t + 1)
    return dict(d=f.d, t=f.t, t2=f.t + 1, n=f.n)


@dec('ldrexd')
def _(f, x):
    unpred((f.t & 1) or f.t == 14 or f.n == 15)
    return dict(t=f.t, t2=f.t + 1, n=f.n)


# ------------------------------------------------------------------ block transfers
@dec('ldm')
def _(f, x):
    unpred(f.n == 15 or bc(f.r) < 1)
    unpred(f.W == 1 and (f.r >> f.n) & 1 and x.arch >= 7)
    return dict(n=f.n, registers=f.r, wback=f.W)


@dec('stm')
def _(f, x):
    unpred(f.n == 15 or bc(f.r) < 1)
    return dict(n=f.n, registers=f.r, wback=f.W)


@dec('pop_a1')
def _(f, x):
    unpred((f.r >> 13) & 1 and x.arch >= 7)
    return dict(registers=f.r, unaligned_allowed=0)


@dec('push_a1')
def _(f, x):
    return dict(registers=f.r, unaligned_allowed=0)


@dec('pop_a2')
def _(f, x):
    unpred(f.t == 13)
    return dict(registers=1 << f.t, unaligned_allowed=1)


@dec('push_a2')
def _(f, x):
    unpred(f.t == 13)
    return dict(registers=1 << f.t, unaligned_allowed=1)


@dec('stm_user')
def _(f, x):
    unpred(f.n == 15 or bc(f.r) < 1)
    return dict(n=f.n, registers=f.r, increment=f.U, word_higher=int(f.P == f.U))


@dec('ldm_user')
def _(f, x):
    unpred(f.n == 15 or bc(f.r) < 1)
    return dict(n=f.n, registers=f.r, increment=f.U, word_higher=int(f.P == f.U))


@dec('ldm_eret')
def _(f, x):
    unpred(f.n == 15)
    unpred(f.W == 1 and (f.r >> f.n) & 1 and x.arch >= 7)
    # the repository keeps bit 15 (always set in this encoding) in `registers`; same register set either way
    return dict(n=f.n, registers=f.r | 0x8000, increment=f.U, word_higher=int(f.P == f.U), wback=f.W)


@dec('srs')
def _(f, x):
    return dict(wback=f.W, increment=f.U, word_higher=int(f.P == f.U), mode=f.m)


@dec('rfe')
def _(f, x):
    unpred(f.n == 15)
    return dict(n=f.n, wback=f.W, increment=f.U, word_higher=int(f.P == f.U))


# ------------------------------------------------------------------ branches
@dec('b')
def _(f, x):
    return dict(imm32=B.SignExtend(f.i << 2, 26, 32))


@dec('bl')
def _(f, x):
    return dict(imm32=B.SignExtend(f.i << 2, 26, 32), target_instr_set='ARM')


@dec('blx_imm')
def _(f, x):
    return dict(imm32=B.SignExtend((f.i << 2) | (f.H << 1), 26, 32), target_instr_set='THUMB')


@dec('bx')
def _(f, x):
    return dict(m=f.m)


@dec('blx_reg')
def _(f, x):
    unpred(f.m == 15)
    return dict(m=f.m)


@dec('bxj')
def _(f, x):
    unpred(f.m == 15)
    return dict(m=f.m)


# ------------------------------------------------------------------ status register / system
@dec('mrs')
def _(f, x):
    unpred(f.d == 15)
    return dict(d=f.d, read_spsr=f.R)


@dec('msr_imm_app')
def _(f, x):
    return dict(imm32=B.ARMExpandImm(f.i), write_nzcvq=(f.m >> 1) & 1, write_g=f.m & 1)


@dec('msr_imm_sys')
def _(f, x):
    unpred(f.m == 0)
    return dict(imm32=B.ARMExpandImm(f.i), write_spsr=f.R, mask=f.m)


@dec('msr_reg_app')
def _(f, x):
    unpred(f.m == 0 or f.n == 15)
    return dict(n=f.n, write_nzcvq=(f.m >> 1) & 1, write_g=f.m & 1)


@dec('msr_reg_sys')
def _(f, x):
    unpred(f.m == 0 or f.n == 15)
    return dict(n=f.n, write_spsr=f.R, mask=f.m)


@dec('cps')
def _(f, x):
    unpred(f.m != 0 and f.M == 0)
    unpred(((f.i >> 1) & 1) != ((f.A | f.I | f.F) and 1 or 0))
    unpred(f.i == 1 or (f.i == 0 and f.M == 0))
    return dict(enable=int(f.i == 2), disable=int(f.i == 3), change_mode=f.M, affect_a=f.A, affect_i=f.I,
                affect_f=f.F, mode=f.m)


@dec('setend')
def _(f, x):
    return dict(set_bigend=f.E)


@dec('svc')
def _(f, x):
    return dict(imm32=f.i)


@dec('bkpt')
def _(f, x):
    unpred(f.c != 14)
    return dict()


@dec('smc')
def _(f, x):
    return dict()


@dec('dsb')
def _(f, x):
    return dict(option=f.p)


@dec('pld_imm')
def _(f, x):
    return dict(n=f.n, imm32=f.i, add=f.U, is_pldw=int(f.R == 0))


@dec('pld_lit')
def _(f, x):
    return dict(imm32=f.i, add=f.U)


@dec('pld_reg')
def _(f, x):
    st, sn = B.DecodeImmShift(f.t, f.s)
    unpred(f.m == 15 or (f.n == 15 and f.R == 0))
    return dict(n=f.n, m=f.m, add=f.U, is_pldw=int(f.R == 0), shift_t=st, shift_n=sn)


@dec('none')
def _(f, x):
    return dict()


# ------------------------------------------------------------------ coprocessor (operands the emulator keeps)
@dec('cdp')
def _(f, x):
    return dict(cp=f.p)


@dec('mcr')
def _(f, x):
    unpred(f.t == 15 or f.t == 13 and False)
    return dict(cp=f.p, t=f.t)


@dec('mrc')
def _(f, x):
    return dict(cp=f.p, t=f.t)


@dec('mcrr')
def _(f, x):
    unpred(f.t == 15 or f.u == 15)
    return dict(cp=f.p, t=f.t, t2=f.u)


@dec('mrrc')
def _(f, x):
    unpred(f.t == 15 or f.u == 15 or f.t == f.u)
    return dict(cp=f.p, t=f.t, t2=f.u)


@dec('stc')
def _(f, x):
    index, add, wback = f.P, f.U, f.W
    unpred(f.n == 15 and wback)
    return dict(cp=f.p, n=f.n, imm32=f.i << 2, index=index, add=add, wback=wback)


@dec('ldc_imm')
def _(f, x):
    return dict(cp=f.p, n=f.n, imm32=f.i << 2, index=f.P, add=f.U, wback=f.W)


@dec('ldc_lit')
def _(f, x):
    unpred(f.W == 1 or (f.P == 0 and x.iset != 'arm'))
    return dict(cp=f.p, imm32=f.i << 2, index=f.P, add=f.U)


ARM = Table('arm', 32)

ARM.add_text('''
# ---- A5.2.1 data-processing (register); SUBS PC, LR (register form) first
subs_pc_lr_arm_a2           | cccc 000 qqqq 1 nnnn 1111 iiiii tt 0 mmmm | q in (8, 9, 10, 11) | subs_pc_reg | subs_pc_lr
and_register_a1             | cccc 0000 000S nnnn dddd iiiii tt 0 mmmm | | dp_reg | dp:AND
eor_register_a1             | cccc 0000 001S nnnn dddd iiiii tt 0 mmmm | | dp_reg | dp:EOR
sub_sp_minus_register_a1    | cccc 0000 010S 1101 dddd iiiii tt 0 mmmm | | dp_sp_reg | dp:SUB:sp
sub_register_a1             | cccc 0000 010S nnnn dddd iiiii tt 0 mmmm | | dp_reg | dp:SUB
rsb_register_a1             | cccc 0000 011S nnnn dddd iiiii tt 0 mmmm | | dp_reg | dp:RSB
add_sp_plus_register_arm_a1 | cccc 0000 100S 1101 dddd iiiii tt 0 mmmm | | dp_sp_reg | dp:ADD:sp
add_register_arm_a1         | cccc 0000 100S nnnn dddd iiiii tt 0 mmmm | | dp_reg | dp:ADD
adc_register_a1             | cccc 0000 101S nnnn dddd iiiii tt 0 mmmm | | dp_reg | dp:ADC
sbc_register_a1             | cccc 0000 110S nnnn dddd iiiii tt 0 mmmm | | dp_reg | dp:SBC
rsc_register_a1             | cccc 0000 111S nnnn dddd iiiii tt 0 mmmm | | dp_reg | dp:RSC
tst_register_a1             | cccc 0001 0001 nnnn zzzz iiiii tt 0 mmmm | | dp_reg_nod | dp:TST
teq_register_a1             | cccc 0001 0011 nnnn zzzz iiiii tt 0 mmmm | | dp_reg_nod | dp:TEQ
cmp_register_a1             | cccc 0001 0101 nnnn zzzz iiiii tt 0 mmmm | | dp_reg_nod | dp:CMP
cmn_register_a1             | cccc 0001 0111 nnnn zzzz iiiii tt 0 mmmm | | dp_reg_nod | dp:CMN
orr_register_a1             | cccc 0001 100S nnnn dddd iiiii tt 0 mmmm | | dp_reg | dp:ORR
mov_register_arm_a1         | cccc 0001 101S zzzz dddd 00000 00 0 mmmm | | mov_reg | dp:MOV
rrx_a1                      | cccc 0001 101S zzzz dddd 00000 11 0 mmmm | | rrx | dp:RRX
lsl_immediate_a1            | cccc 0001 101S zzzz dddd iiiii 00 0 mmmm | | lsl_imm | dp:LSLi
lsr_immediate_a1            | cccc 0001 101S zzzz dddd iiiii 01 0 mmmm | | lsr_imm | dp:LSRi
asr_immediate_a1            | cccc 0001 101S zzzz dddd iiiii 10 0 mmmm | | asr_imm | dp:ASRi
ror_immediate_a1            | cccc 0001 101S zzzz dddd iiiii 11 0 mmmm | | ror_imm | dp:RORi
bic_register_a1             | cccc 0001 110S nnnn dddd iiiii tt 0 mmmm | | dp_reg | dp:BIC
mvn_register_a1             | cccc 0001 111S zzzz dddd iiiii tt 0 mmmm | | dp_reg_non | dp:MVN
# ---- A5.2.2 data-processing (register-shifted register)
and_register_shifted_register_a1 | cccc 0000 000S nnnn dddd ssss 0 tt 1 mmmm | | dp_rsr | dp:AND
eor_register_shifted_register_a1 | cccc 0000 001S nnnn dddd ssss 0 tt 1 mmmm | | dp_rsr | dp:EOR
sub_register_shifted_register_a1 | cccc 0000 010S nnnn dddd ssss 0 tt 1 mmmm | | dp_rsr | dp:SUB
rsb_register_shifted_register_a1 | cccc 0000 011S nnnn dddd ssss 0 tt 1 mmmm | | dp_rsr | dp:RSB
add_register_shifted_register_a1 | cccc 0000 100S nnnn dddd ssss 0 tt 1 mmmm | | dp_rsr | dp:ADD
adc_register_shifted_register_a1 | cccc 0000 101S nnnn dddd ssss 0 tt 1 mmmm | | dp_rsr | dp:ADC
sbc_register_shifted_register_a1 | cccc 0000 110S nnnn dddd ssss 0 tt 1 mmmm | | dp_rsr | dp:SBC
rsc_register_shifted_register_a1 | cccc 0000 111S nnnn dddd ssss 0 tt 1 mmmm | | dp_rsr | dp:RSC
tst_register_shifted_register_a1 | cccc 0001 0001 nnnn zzzz ssss 0 tt 1 mmmm | | dp_rsr_nod | dp:TST
teq_register_shifted_register_a1 | cccc 0001 0011 nnnn zzzz ssss 0 tt 1 mmmm | | dp_rsr_nod | dp:TEQ
cmp_register_shifted_register_a1 | cccc 0001 0101 nnnn zzzz ssss 0 tt 1 mmmm | | dp_rsr_nod | dp:CMP
cmn_register_shifted_register_a1 | cccc 0001 0111 nnnn zzzz ssss 0 tt 1 mmmm | | dp_rsr_nod | dp:CMN
orr_register_shifted_register_a1 | cccc 0001 100S nnnn dddd ssss 0 tt 1 mmmm | | dp_rsr | dp:ORR
lsl_register_a1             | cccc 0001 101S zzzz dddd mmmm 0 00 1 nnnn | | shift_reg | dp:LSLr
lsr_register_a1             | cccc 0001 101S zzzz dddd mmmm 0 01 1 nnnn | | shift_reg | dp:LSRr
asr_register_a1             | cccc 0001 101S zzzz dddd mmmm 0 10 1 nnnn | | shift_reg | dp:ASRr
ror_register_a1             | cccc 0001 101S zzzz dddd mmmm 0 11 1 nnnn | | shift_reg | dp:RORr
bic_register_shifted_register_a1 | cccc 0001 110S nnnn dddd ssss 0 tt 1 mmmm | | dp_rsr | dp:BIC
mvn_register_shifted_register_a1 | cccc 0001 111S zzzz dddd ssss 0 tt 1 mmmm | | dp_rsr_non | dp:MVN
# ---- A5.2.12 miscellaneous
!mrs_banked_a1              | cccc 0001 0 x 00 xxxx xxxx xx 1 x 0000 xxxx
!msr_banked_a1              | cccc 0001 0 x 10 xxxx xxxx xx 1 x 0000 xxxx
mrs_application_a1          | cccc 0001 0 R 00 oooo dddd z z 0 z 0000 zzzz | R == 1 | mrs | mrs
mrs_system_a1               | cccc 0001 0 R 00 oooo dddd z z 0 z 0000 zzzz | | mrs | mrs
msr_register_application_a1 | cccc 0001 0 0 10 mm 00 oooo z z 0 z 0000 nnnn | | msr_reg_app | msr_app
msr_register_system_a1      | cccc 0001 0 R 10 mmmm oooo z z 0 z 0000 nnnn | | msr_reg_sys | msr_sys
bx_a1                       | cccc 0001 0010 oooo oooo oooo 0001 mmmm | | bx | bx
clz_a1                      | cccc 0001 0110 oooo dddd oooo 0001 mmmm | | dm | clz
bxj_a1                      | cccc 0001 0010 oooo oooo oooo 0010 mmmm | | bxj | bxj
blx_register_a1             | cccc 0001 0010 oooo oooo oooo 0011 mmmm | | blx_reg | blx_reg
qadd_a1                     | cccc 0001 0000 nnnn dddd zzzz 0101 mmmm | | sat_addsub | qadd
qsub_a1                     | cccc 0001 0010 nnnn dddd zzzz 0101 mmmm | | sat_addsub | qsub
qdadd_a1                    | cccc 0001 0100 nnnn dddd zzzz 0101 mmmm | | sat_addsub | qdadd
qdsub_a1                    | cccc 0001 0110 nnnn dddd zzzz 0101 mmmm | | sat_addsub | qdsub
!eret_a1                    | cccc 0001 0110 zzzz zzzz zzzz 0110 oooz
bkpt_a1                     | cccc 0001 0010 iiiiiiiiiiii 0111 iiii | | bkpt | bkpt
!hvc_a1                     | cccc 0001 0100 iiiiiiiiiiii 0111 iiii
smc_a1                      | cccc 0001 0110 zzzz zzzz zzzz 0111 iiii | | smc | smc
# ---- A5.2.7 halfword multiply
smla_a1                     | cccc 0001 0000 dddd aaaa mmmm 1 M N 0 nnnn | | smla_xy | smlaxy
smlaw_a1                    | cccc 0001 0010 dddd aaaa mmmm 1 M 0 0 nnnn | | smlaw | smlaw
smulw_a1                    | cccc 0001 0010 dddd zzzz mmmm 1 M 1 0 nnnn | | smulw | smulw
smlalxy_a1                  | cccc 0001 0100 hhhh llll mmmm 1 M N 0 nnnn | | smlal_xy | smlalxy
smul_a1                     | cccc 0001 0110 dddd zzzz mmmm 1 M N 0 nnnn | | smul_xy | smulxy
# ---- A5.2.5 multiply and multiply accumulate
mul_a1                      | cccc 0000 000S dddd zzzz mmmm 1001 nnnn | | mul | mul
mla_a1                      | cccc 0000 001S dddd aaaa mmmm 1001 nnnn | | mla | mla
umaal_a1                    | cccc 0000 0100 hhhh llll mmmm 1001 nnnn | | umaal | umaal
mls_a1                      | cccc 0000 0110 dddd aaaa mmmm 1001 nnnn | | mls | mls
umull_a1                    | cccc 0000 100S hhhh llll mmmm 1001 nnnn | | mull | umull
umlal_a1                    | cccc 0000 101S hhhh llll mmmm 1001 nnnn | | mull | umlal
smull_a1                    | cccc 0000 110S hhhh llll mmmm 1001 nnnn | | mull | smull
smlal_a1                    | cccc 0000 111S hhhh llll mmmm 1001 nnnn | | mull | smlal
# ---- A5.2.10 synchronization primitives
!swp_a1                     | cccc 0001 0 x 00 xxxx xxxx xxxx 1001 xxxx
strex_a1                    | cccc 0001 1000 nnnn dddd oooo 1001 tttt | | strex | strex:4
ldrex_a1                    | cccc 0001 1001 nnnn tttt oooo 1001 oooo | | ldrex | ldrex:4
strexd_a1                   | cccc 0001 1010 nnnn dddd oooo 1001 tttt | | strexd | strex:8
ldrexd_a1                   | cccc 0001 1011 nnnn tttt oooo 1001 oooo | | ldrexd | ldrex:8
strexb_a1                   | cccc 0001 1100 nnnn dddd oooo 1001 tttt | | strexbh | strex:1
ldrexb_a1                   | cccc 0001 1101 nnnn tttt oooo 1001 oooo | | ldrexbh | ldrex:1
strexh_a1                   | cccc 0001 1110 nnnn dddd oooo 1001 tttt | | strexbh | strex:2
ldrexh_a1                   | cccc 0001 1111 nnnn tttt oooo 1001 oooo | | ldrexbh | ldrex:2
# ---- A5.2.9 extra load/store, unprivileged (P=0, W=1)
strht_a1                    | cccc 0000 U110 nnnn tttt hhhh 1011 llll | | ldrht_a1 | ls:STRHT
strht_a2                    | cccc 0000 U010 nnnn tttt zzzz 1011 mmmm | | ldrht_a2 | ls:STRHT
ldrht_a1                    | cccc 0000 U111 nnnn tttt hhhh 1011 llll | | ldrht_a1 | ls:LDRHT
ldrht_a2                    | cccc 0000 U011 nnnn tttt zzzz 1011 mmmm | | ldrht_a2 | ls:LDRHT
ldrsbt_a1                   | cccc 0000 U111 nnnn tttt hhhh 1101 llll | | ldrht_a1 | ls:LDRSBT
ldrsbt_a2                   | cccc 0000 U011 nnnn tttt zzzz 1101 mmmm | | ldrht_a2 | ls:LDRSBT
ldrsht_a1                   | cccc 0000 U111 nnnn tttt hhhh 1111 llll | | ldrht_a1 | ls:LDRSHT
ldrsht_a2                   | cccc 0000 U011 nnnn tttt zzzz 1111 mmmm | | ldrht_a2 | ls:LDRSHT
# ---- A5.2.8 extra load/store
strh_register_a1            | cccc 000P U0W0 nnnn tttt zzzz 1011 mmmm | | strh_reg | ls:STRH
ldrh_register_a1            | cccc 000P U0W1 nnnn tttt zzzz 1011 mmmm | | strh_reg | ls:LDRH
strh_immediate_arm_a1       | cccc 000P U1W0 nnnn tttt hhhh 1011 llll | | strh_imm | ls:STRH
ldrh_literal_a1             | cccc 000P U1W1 1111 tttt hhhh 1011 llll | | ldrh_lit | ls:LDRH:lit
ldrh_immediate_arm_a1       | cccc 000P U1W1 nnnn tttt hhhh 1011 llll | | ldrh_imm | ls:LDRH
ldrd_register_a1            | cccc 000P U0W0 nnnn tttt zzzz 1101 mmmm | | ldrd_reg | ls:LDRD
ldrsb_register_a1           | cccc 000P U0W1 nnnn tttt zzzz 1101 mmmm | | strh_reg | ls:LDRSB
ldrd_literal_a1             | cccc 000o U1z0 1111 tttt hhhh 1101 llll | | ldrd_lit | ls:LDRD:lit
ldrd_immediate_a1           | cccc 000P U1W0 nnnn tttt hhhh 1101 llll | | ldrd_imm | ls:LDRD
ldrsb_literal_a1            | cccc 000P U1W1 1111 tttt hhhh 1101 llll | | ldrh_lit | ls:LDRSB:lit
ldrsb_immediate_a1          | cccc 000P U1W1 nnnn tttt hhhh 1101 llll | | ldrh_imm | ls:LDRSB
strd_register_a1            | cccc 000P U0W0 nnnn tttt zzzz 1111 mmmm | | strd_reg | ls:STRD
ldrsh_register_a1           | cccc 000P U0W1 nnnn tttt zzzz 1111 mmmm | | strh_reg | ls:LDRSH
strd_immediate_a1           | cccc 000P U1W0 nnnn tttt hhhh 1111 llll | | strd_imm | ls:STRD
ldrsh_literal_a1            | cccc 000P U1W1 1111 tttt hhhh 1111 llll | | ldrh_lit | ls:LDRSH:lit
ldrsh_immediate_a1          | cccc 000P U1W1 nnnn tttt hhhh 1111 llll | | ldrh_imm | ls:LDRSH
# ---- A5.2.3 data-processing (immediate) and A5.2.11
subs_pc_lr_arm_a1           | cccc 001 qqqq 1 nnnn 1111 iiiiiiiiiiii | q in (8, 9, 10, 11) | subs_pc_imm | subs_pc_lr
and_immediate_a1            | cccc 0010 000S nnnn dddd iiiiiiiiiiii | | dp_imm_c | dp:AND
eor_immediate_a1            | cccc 0010 001S nnnn dddd iiiiiiiiiiii | | dp_imm_c | dp:EOR
adr_a2                      | cccc 0010 0100 1111 dddd iiiiiiiiiiii | | adr_sub | adr
sub_sp_minus_immediate_a1   | cccc 0010 010S 1101 dddd iiiiiiiiiiii | | dp_sp_imm | dp:SUB:sp
sub_immediate_arm_a1        | cccc 0010 010S nnnn dddd iiiiiiiiiiii | | dp_imm | dp:SUB
rsb_immediate_a1            | cccc 0010 011S nnnn dddd iiiiiiiiiiii | | dp_imm | dp:RSB
adr_a1                      | cccc 0010 1000 1111 dddd iiiiiiiiiiii | | adr_add | adr
add_sp_plus_immediate_a1    | cccc 0010 100S 1101 dddd iiiiiiiiiiii | | dp_sp_imm | dp:ADD:sp
add_immediate_arm_a1        | cccc 0010 100S nnnn dddd iiiiiiiiiiii | | dp_imm | dp:ADD
adc_immediate_a1            | cccc 0010 101S nnnn dddd iiiiiiiiiiii | | dp_imm | dp:ADC
sbc_immediate_a1            | cccc 0010 110S nnnn dddd iiiiiiiiiiii | | dp_imm | dp:SBC
rsc_immediate_a1            | cccc 0010 111S nnnn dddd iiiiiiiiiiii | | dp_imm | dp:RSC
mov_immediate_a2            | cccc 0011 0000 jjjj dddd iiiiiiiiiiii | | movw | dp:MOV
tst_immediate_a1            | cccc 0011 0001 nnnn zzzz iiiiiiiiiiii | | dp_imm_nod_c | dp:TST
nop_a1                      | cccc 0011 0010 0000 oooo zzzz 00000000 | | none | nop
yield_a1                    | cccc 0011 0010 0000 oooo zzzz 00000001 | | none | yield
wfe_a1                      | cccc 0011 0010 0000 oooo zzzz 00000010 | | none | wfe
wfi_a1                      | cccc 0011 0010 0000 oooo zzzz 00000011 | | none | wfi
sev_a1                      | cccc 0011 0010 0000 oooo zzzz 00000100 | | none | sev
!dbg_a1                     | cccc 0011 0010 0000 oooo zzzz 1111 xxxx
?unallocated_hint_a1        | cccc 0011 0010 0000 xxxx xxxx xxxxxxxx
msr_immediate_application_a1 | cccc 0011 0010 mm00 oooo iiiiiiiiiiii | | msr_imm_app | msr_app
msr_immediate_system_a1     | cccc 0011 0R10 mmmm oooo iiiiiiiiiiii | | msr_imm_sys | msr_sys
teq_immediate_a1            | cccc 0011 0011 nnnn zzzz iiiiiiiiiiii | | dp_imm_nod_c | dp:TEQ
movt_a1                     | cccc 0011 0100 jjjj dddd iiiiiiiiiiii | | movt | movt
cmp_immediate_a1            | cccc 0011 0101 nnnn zzzz iiiiiiiiiiii | | dp_imm_nod | dp:CMP
cmn_immediate_a1            | cccc 0011 0111 nnnn zzzz iiiiiiiiiiii | | dp_imm_nod | dp:CMN
orr_immediate_a1            | cccc 0011 100S nnnn dddd iiiiiiiiiiii | | dp_imm_c | dp:ORR
mov_immediate_a1            | cccc 0011 101S zzzz dddd iiiiiiiiiiii | | dp_imm_non_c | dp:MOV
bic_immediate_a1            | cccc 0011 110S nnnn dddd iiiiiiiiiiii | | dp_imm_c | dp:BIC
mvn_immediate_a1            | cccc 0011 111S zzzz dddd iiiiiiiiiiii | | dp_imm_non_c | dp:MVN
# ---- A5.3 load/store word and unsigned byte
strt_a1                     | cccc 0100 U010 nnnn tttt iiiiiiiiiiii | | strt_a1 | ls:STRT
ldrt_a1                     | cccc 0100 U011 nnnn tttt iiiiiiiiiiii | | ldrt_a1 | ls:LDRT
strbt_a1                    | cccc 0100 U110 nnnn tttt iiiiiiiiiiii | | ldrt_a1 | ls:STRBT
ldrbt_a1                    | cccc 0100 U111 nnnn tttt iiiiiiiiiiii | | ldrt_a1 | ls:LDRBT
push_a2                     | cccc 0101 0010 1101 tttt 000000000100 | | push_a2 | push
pop_arm_a2                  | cccc 0100 1001 1101 tttt 000000000100 | | pop_a2 | pop
str_immediate_arm_a1        | cccc 010P U0W0 nnnn tttt iiiiiiiiiiii | | str_imm | ls:STR
ldr_literal_a1              | cccc 010P U0W1 1111 tttt iiiiiiiiiiii | | ldr_lit | ls:LDR:lit
ldr_immediate_arm_a1        | cccc 010P U0W1 nnnn tttt iiiiiiiiiiii | | ldr_imm | ls:LDR
strb_immediate_arm_a1       | cccc 010P U1W0 nnnn tttt iiiiiiiiiiii | | strb_imm | ls:STRB
ldrb_literal_a1             | cccc 010P U1W1 1111 tttt iiiiiiiiiiii | | ldrb_lit | ls:LDRB:lit
ldrb_immediate_arm_a1       | cccc 010P U1W1 nnnn tttt iiiiiiiiiiii | | ldrb_imm | ls:LDRB
strt_a2                     | cccc 0110 U010 nnnn tttt iiiii ss 0 mmmm | | strt_a2 | ls:STRT
ldrt_a2                     | cccc 0110 U011 nnnn tttt iiiii ss 0 mmmm | | ldrt_a2 | ls:LDRT
strbt_a2                    | cccc 0110 U110 nnnn tttt iiiii ss 0 mmmm | | ldrt_a2 | ls:STRBT
ldrbt_a2                    | cccc 0110 U111 nnnn tttt iiiii ss 0 mmmm | | ldrt_a2 | ls:LDRBT
str_register_a1             | cccc 011P U0W0 nnnn tttt iiiii ss 0 mmmm | | str_reg | ls:STR
ldr_register_arm_a1         | cccc 011P U0W1 nnnn tttt iiiii ss 0 mmmm | | ldr_reg | ls:LDR
strb_register_a1            | cccc 011P U1W0 nnnn tttt iiiii ss 0 mmmm | | strb_reg | ls:STRB
ldrb_register_a1            | cccc 011P U1W1 nnnn tttt iiiii ss 0 mmmm | | strb_reg | ls:LDRB
# ---- A5.4 media
sadd16_a1  | cccc 0110 0001 nnnn dddd oooo 0001 mmmm | | dnm | par:S:ADD16
sasx_a1    | cccc 0110 0001 nnnn dddd oooo 0011 mmmm | | dnm | par:S:ASX
ssax_a1    | cccc 0110 0001 nnnn dddd oooo 0101 mmmm | | dnm | par:S:SAX
ssub16_a1  | cccc 0110 0001 nnnn dddd oooo 0111 mmmm | | dnm | par:S:SUB16
sadd8_a1   | cccc 0110 0001 nnnn dddd oooo 1001 mmmm | | dnm | par:S:ADD8
ssub8_a1   | cccc 0110 0001 nnnn dddd oooo 1111 mmmm | | dnm | par:S:SUB8
qadd16_a1  | cccc 0110 0010 nnnn dddd oooo 0001 mmmm | | dnm | par:Q:ADD16
qasx_a1    | cccc 0110 0010 nnnn dddd oooo 0011 mmmm | | dnm | par:Q:ASX
qsax_a1    | cccc 0110 0010 nnnn dddd oooo 0101 mmmm | | dnm | par:Q:SAX
qsub16_a1  | cccc 0110 0010 nnnn dddd oooo 0111 mmmm | | dnm | par:Q:SUB16
qadd8_a1   | cccc 0110 0010 nnnn dddd oooo 1001 mmmm | | dnm | par:Q:ADD8
qsub8_a1   | cccc 0110 0010 nnnn dddd oooo 1111 mmmm | | dnm | par:Q:SUB8
shadd16_a1 | cccc 0110 0011 nnnn dddd oooo 0001 mmmm | | dnm | par:SH:ADD16
shasx_a1   | cccc 0110 0011 nnnn dddd oooo 0011 mmmm | | dnm | par:SH:ASX
shsax_a1   | cccc 0110 0011 nnnn dddd oooo 0101 mmmm | | dnm | par:SH:SAX
shsub16_a1 | cccc 0110 0011 nnnn dddd oooo 0111 mmmm | | dnm | par:SH:SUB16
shadd8_a1  | cccc 0110 0011 nnnn dddd oooo 1001 mmmm | | dnm | par:SH:ADD8
shsub8_a1  | cccc 0110 0011 nnnn dddd oooo 1111 mmmm | | dnm | par:SH:SUB8
uadd16_a1  | cccc 0110 0101 nnnn dddd oooo 0001 mmmm | | dnm | par:U:ADD16
uasx_a1    | cccc 0110 0101 nnnn dddd oooo 0011 mmmm | | dnm | par:U:ASX
usax_a1    | cccc 0110 0101 nnnn dddd oooo 0101 mmmm | | dnm | par:U:SAX
usub16_a1  | cccc 0110 0101 nnnn dddd oooo 0111 mmmm | | dnm | par:U:SUB16
uadd8_a1   | cccc 0110 0101 nnnn dddd oooo 1001 mmmm | | dnm | par:U:ADD8
usub8_a1   | cccc 0110 0101 nnnn dddd oooo 1111 mmmm | | dnm | par:U:SUB8
uqadd16_a1 | cccc 0110 0110 nnnn dddd oooo 0001 mmmm | | dnm | par:UQ:ADD16
uqasx_a1   | cccc 0110 0110 nnnn dddd oooo 0011 mmmm | | dnm | par:UQ:ASX
uqsax_a1   | cccc 0110 0110 nnnn dddd oooo 0101 mmmm | | dnm | par:UQ:SAX
uqsub16_a1 | cccc 0110 0110 nnnn dddd oooo 0111 mmmm | | dnm | par:UQ:SUB16
uqadd8_a1  | cccc 0110 0110 nnnn dddd oooo 1001 mmmm | | dnm | par:UQ:ADD8
uqsub8_a1  | cccc 0110 0110 nnnn dddd oooo 1111 mmmm | | dnm | par:UQ:SUB8
uhadd16_a1 | cccc 0110 0111 nnnn dddd oooo 0001 mmmm | | dnm | par:UH:ADD16
uhasx_a1   | cccc 0110 0111 nnnn dddd oooo 0011 mmmm | | dnm | par:UH:ASX
uhsax_a1   | cccc 0110 0111 nnnn dddd oooo 0101 mmmm | | dnm | par:UH:SAX
uhsub16_a1 | cccc 0110 0111 nnnn dddd oooo 0111 mmmm | | dnm | par:UH:SUB16
uhadd8_a1  | cccc 0110 0111 nnnn dddd oooo 1001 mmmm | | dnm | par:UH:ADD8
uhsub8_a1  | cccc 0110 0111 nnnn dddd oooo 1111 mmmm | | dnm | par:UH:SUB8
pkh_a1     | cccc 0110 1000 nnnn dddd iiiii T 01 mmmm | | pkh | pkh
sxtb16_a1  | cccc 0110 1000 1111 dddd rr zz 0111 mmmm | | xt | xt:S:B16
sxtab16_a1 | cccc 0110 1000 nnnn dddd rr zz 0111 mmmm | | xta | xta:S:B16
sel_a1     | cccc 0110 1000 nnnn dddd oooo 1011 mmmm | | dnm | sel
ssat_a1    | cccc 0110 101 sssss dddd iiiii h 01 nnnn | | ssat | ssat
ssat16_a1  | cccc 0110 1010 ssss dddd oooo 0011 nnnn | | ssat16 | ssat16
sxtb_a1    | cccc 0110 1010 1111 dddd rr zz 0111 mmmm | | xt | xt:S:B
sxtab_a1   | cccc 0110 1010 nnnn dddd rr zz 0111 mmmm | | xta | xta:S:B
rev_a1     | cccc 0110 1011 oooo dddd oooo 0011 mmmm | | dm | rev
sxth_a1    | cccc 0110 1011 1111 dddd rr zz 0111 mmmm | | xt | xt:S:H
sxtah_a1   | cccc 0110 1011 nnnn dddd rr zz 0111 mmmm | | xta | xta:S:H
rev16_a1   | cccc 0110 1011 oooo dddd oooo 1011 mmmm | | dm | rev16
uxtb16_a1  | cccc 0110 1100 1111 dddd rr zz 0111 mmmm | | xt | xt:U:B16
uxtab16_a1 | cccc 0110 1100 nnnn dddd rr zz 0111 mmmm | | xta | xta:U:B16
usat_a1    | cccc 0110 111 sssss dddd iiiii h 01 nnnn | | usat | usat
usat16_a1  | cccc 0110 1110 ssss dddd oooo 0011 nnnn | | usat16 | usat16
uxtb_a1    | cccc 0110 1110 1111 dddd rr zz 0111 mmmm | | xt | xt:U:B
uxtab_a1   | cccc 0110 1110 nnnn dddd rr zz 0111 mmmm | | xta | xta:U:B
rbit_a1    | cccc 0110 1111 oooo dddd oooo 0011 mmmm | | dm | rbit
uxth_a1    | cccc 0110 1111 1111 dddd rr zz 0111 mmmm | | xt | xt:U:H
uxtah_a1   | cccc 0110 1111 nnnn dddd rr zz 0111 mmmm | | xta | xta:U:H
revsh_a1   | cccc 0110 1111 oooo dddd oooo 1011 mmmm | | dm | revsh
smuad_a1   | cccc 0111 0000 dddd 1111 mmmm 00 M 1 nnnn | | smuad | smuad
smlad_a1   | cccc 0111 0000 dddd aaaa mmmm 00 M 1 nnnn | | smlad | smlad
smusd_a1   | cccc 0111 0000 dddd 1111 mmmm 01 M 1 nnnn | | smuad | smusd
smlsd_a1   | cccc 0111 0000 dddd aaaa mmmm 01 M 1 nnnn | | smlad | smlsd
sdiv_a1    | cccc 0111 0001 dddd oooo mmmm 0001 nnnn | | div | sdiv
udiv_a1    | cccc 0111 0011 dddd oooo mmmm 0001 nnnn | | div | udiv
smlald_a1  | cccc 0111 0100 hhhh llll mmmm 00 M 1 nnnn | | smlald | smlald
smlsld_a1  | cccc 0111 0100 hhhh llll mmmm 01 M 1 nnnn | | smlald | smlsld
smmul_a1   | cccc 0111 0101 dddd 1111 mmmm 00 R 1 nnnn | | smmul | smmul
smmla_a1   | cccc 0111 0101 dddd aaaa mmmm 00 R 1 nnnn | | smmla | smmla
smmls_a1   | cccc 0111 0101 dddd aaaa mmmm 11 R 1 nnnn | | smmls | smmls
usad8_a1   | cccc 0111 1000 dddd 1111 mmmm 0001 nnnn | | dnm | usad8
usada8_a1  | cccc 0111 1000 dddd aaaa mmmm 0001 nnnn | | usada8 | usada8
sbfx_a1    | cccc 0111 101 wwwww dddd lllll 101 nnnn | | sbfx | sbfx
bfc_a1     | cccc 0111 110 hhhhh dddd lllll 001 1111 | | bfc | bfc
bfi_a1     | cccc 0111 110 hhhhh dddd lllll 001 nnnn | | bfi | bfi
ubfx_a1    | cccc 0111 111 wwwww dddd lllll 101 nnnn | | sbfx | ubfx
~udf_a1    | cccc 0111 1111 iiiiiiiiiiii 1111 iiii
# ---- A5.5 branch, branch with link, block data transfer
stmda_a1   | cccc 1000 00W0 nnnn rrrrrrrrrrrrrrrr | | stm | stm:DA
ldmda_a1   | cccc 1000 00W1 nnnn rrrrrrrrrrrrrrrr | | ldm | ldm:DA
stm_a1     | cccc 1000 10W0 nnnn rrrrrrrrrrrrrrrr | | stm | stm:IA
pop_arm_a1 | cccc 1000 1011 1101 rrrrrrrrrrrrrrrr | popcount_lt2(r) | pop_a1 | pop
ldm_arm_a1 | cccc 1000 10W1 nnnn rrrrrrrrrrrrrrrr | | ldm | ldm:IA
push_a1    | cccc 1001 0010 1101 rrrrrrrrrrrrrrrr | popcount_lt2(r) | push_a1 | push
stmdb_a1   | cccc 1001 00W0 nnnn rrrrrrrrrrrrrrrr | | stm | stm:DB
ldmdb_a1   | cccc 1001 00W1 nnnn rrrrrrrrrrrrrrrr | | ldm | ldm:DB
stmib_a1   | cccc 1001 10W0 nnnn rrrrrrrrrrrrrrrr | | stm | stm:IB
ldmib_a1   | cccc 1001 10W1 nnnn rrrrrrrrrrrrrrrr | | ldm | ldm:IB
stm_user_registers_a1    | cccc 100P U1z0 nnnn rrrrrrrrrrrrrrrr | | stm_user | stm_user
ldm_user_registers_a1    | cccc 100P U1z1 nnnn 0rrrrrrrrrrrrrrr | | ldm_user | ldm_user
ldm_exception_return_a1  | cccc 100P U1W1 nnnn 1rrrrrrrrrrrrrrr | | ldm_eret | ldm_eret
b_a1             | cccc 1010 iiiiiiiiiiiiiiiiiiiiiiii | | b | b
bl_immediate_a1  | cccc 1011 iiiiiiiiiiiiiiiiiiiiiiii | | bl | bl
# ---- A5.6 coprocessor, SVC
svc_a1           | cccc 1111 iiiiiiiiiiiiiiiiiiiiiiii | | svc | svc
~undefined_cp_a1 | cccc 1100 000x xxxx xxxx xxxx xxxxxxxx
!vfp_simd_a1     | cccc 11 xxxxxx xxxx xxxx 101x xxxxxxxx
mcrr_mcrr2_a1    | cccc 1100 0100 uuuu tttt pppp kkkk mmmm | | mcrr | cp
mrrc_mrrc2_a1    | cccc 1100 0101 uuuu tttt pppp kkkk mmmm | | mrrc | cp
stc_a1           | cccc 110P UDW0 nnnn CCCC pppp iiiiiiii | | stc | cp
ldc_literal_a1   | cccc 110P UDW1 1111 CCCC pppp iiiiiiii | | ldc_lit | cp
ldc_immediate_a1 | cccc 110P UDW1 nnnn CCCC pppp iiiiiiii | | ldc_imm | cp
cdp_cdp2_a1      | cccc 1110 kkkk nnnn CCCC pppp qqq 0 mmmm | | cdp | cp
mcr_mcr2_a1      | cccc 1110 qqq0 nnnn tttt pppp rrr 1 mmmm | | mcr | cp
mrc_mrc2_a1      | cccc 1110 qqq1 nnnn tttt pppp rrr 1 mmmm | | mrc | cp
# ---- A5.7 unconditional instructions
cps_arm_a1       | 1111 0001 0000 ii M 0 zzzzzzz A I F 0 mmmmm | | cps | cps
setend_a1        | 1111 0001 0000 zzz1 zzzzzz E z 0000 zzzz | | setend | setend
!adv_simd_dp_a1  | 1111 001x xxxx xxxx xxxx xxxx xxxx xxxx
!adv_simd_ls_a1  | 1111 0100 xxx0 xxxx xxxx xxxx xxxx xxxx
?unalloc_memhint_a1 | 1111 0100 x001 xxxx xxxx xxxx xxxx xxxx
!pli_imm_a1      | 1111 0100 x101 xxxx xxxx xxxx xxxx xxxx
!pldw_immediate_a1 | 1111 0101 x 0 01 xxxx xxxx xxxxxxxxxxxx
pld_literal_a1   | 1111 0101 U o 01 1111 oooo iiiiiiiiiiii | | pld_lit | pld
pld_immediate_a1 | 1111 0101 U R 01 nnnn oooo iiiiiiiiiiii | | pld_imm | pld
clrex_a1         | 1111 0101 0111 oooo oooo zzzz 0001 oooo | | none | clrex
dsb_a1           | 1111 0101 0111 oooo oooo zzzz 0100 pppp | | dsb | dsb
!dmb_a1          | 1111 0101 0111 oooo oooo zzzz 0101 pppp
isb_a1           | 1111 0101 0111 oooo oooo zzzz 0110 pppp | | dsb | isb
?unalloc_memhint2_a1 | 1111 0110 x001 xxxx xxxx xxxx xxx0 xxxx
!pli_reg_a1      | 1111 0110 x101 xxxx xxxx xxxx xxx0 xxxx
!pldw_register_a1 | 1111 0111 x 0 01 xxxx xxxx xxxxx xx 0 xxxx
pld_register_a1  | 1111 0111 U R 01 nnnn oooo sssss tt 0 mmmm | | pld_reg | pld
srs_arm_a1       | 1111 100P U1W0 oozo zzzz zozo zzz mmmmm | | srs | srs
rfe_a1           | 1111 100P U0W1 nnnn zzzz ozoz zzzz zzzz | | rfe | rfe
bl_immediate_a2  | 1111 101H iiiiiiiiiiiiiiiiiiiiiiii | | blx_imm | bl
~undefined_cp2_a1 | 1111 1100 000x xxxx xxxx xxxx xxxxxxxx
~undefined_cp2_vfp_a1 | 1111 11xx xxxx xxxx xxxx 101x xxxx xxxx    # CDP2/MCR2/LDC2.. with coproc 101x: UNDEFINED
mcrr_mcrr2_a2    | 1111 1100 0100 uuuu tttt pppp kkkk mmmm | | mcrr | cp
mrrc_mrrc2_a2    | 1111 1100 0101 uuuu tttt pppp kkkk mmmm | | mrrc | cp
stc_stc2_a2      | 1111 110P UDW0 nnnn CCCC pppp iiiiiiii | | stc | cp
ldc_ldc2_literal_a2   | 1111 110P UDW1 1111 CCCC pppp iiiiiiii | | ldc_lit | cp
ldc_ldc2_immediate_a2 | 1111 110P UDW1 nnnn CCCC pppp iiiiiiii | | ldc_imm | cp
cdp_cdp2_a2      | 1111 1110 kkkk nnnn CCCC pppp qqq 0 mmmm | | cdp | cp
mcr_mcr2_a2      | 1111 1110 qqq0 nnnn tttt pppp rrr 1 mmmm | | mcr | cp
mrc_mrc2_a2      | 1111 1110 qqq1 nnnn tttt pppp rrr 1 mmmm | | mrc | cp
''', D)
