"""Reference semantics: single loads/stores, dual, unprivileged, exclusive, block transfers, PUSH/POP,
SRS/RFE (A8 / B9 pseudocode)."""
from vf.ref import bits as B
from vf.ref import mem as _mem          # noqa: F401 (installs MemA/MemU on RefCPU)
from vf.ref.model import sem, RefUnpredictable, RefUndefined, RefNotModelled, RefAbort, M_HYP, M_USR, M_SYS, M_MON, M_FIQ

M32 = 0xFFFFFFFF
SIZES = {'LDR': 4, 'STR': 4, 'LDRB': 1, 'STRB': 1, 'LDRH': 2, 'STRH': 2, 'LDRSB': 1, 'LDRSH': 2, 'LDRD': 8, 'STRD': 8,
         'LDRT': 4, 'STRT': 4, 'LDRBT': 1, 'STRBT': 1, 'LDRHT': 2, 'STRHT': 2, 'LDRSBT': 1, 'LDRSHT': 2}


def bc(x):
    return bin(x).count('1')


def pc_store_value(cpu):
    return cpu.R(15)


@sem('ls')
def ls(cpu, o, row):
    parts = row.sem.split(':')
    op = parts[1]
    literal = len(parts) > 2 and parts[2] == 'lit'
    thumb = row.width == 16 or row.name.rsplit('_', 1)[1].startswith('t')
    unpriv = op.endswith('T') and op not in ('STR',)
    base_op = op[:-1] if unpriv else op
    size = SIZES[op]
    load = base_op.startswith('LDR')
    signed = base_op in ('LDRSB', 'LDRSH')
    if unpriv and cpu.mode == M_HYP:
        raise RefUnpredictable('unprivileged load/store in Hyp mode')
    # ---- address
    if literal:
        base = B.Align(cpu.R(15), 4)
        address = (base + o['imm32']) if o['add'] else (base - o['imm32'])
        address &= M32
        offset_addr = address
        wback = False
        n = 15
    else:
        n = o['n']
        rn = cpu.R(n)
        if 'm' in o and (o.get('register_form', 1) or 'imm32' not in o):
            offset = B.Shift(cpu.R(o['m']), 32, o.get('shift_t', 'LSL'), o.get('shift_n', 0), cpu.C)
        else:
            offset = o['imm32']
        add = o.get('add', 1)
        offset_addr = ((rn + offset) if add else (rn - offset)) & M32
        if unpriv:
            post = o.get('post_index', 0)
            address = rn if post else offset_addr
            wback = bool(post)
        else:
            index = o.get('index', 1)
            address = offset_addr if index else rn
            wback = bool(o.get('wback', 0))
    rd = (lambda a, sz: cpu.MemU_unpriv(a, sz)) if unpriv else (lambda a, sz: cpu.MemU(a, sz))
    wr = (lambda a, sz, v: cpu.MemU_unpriv(a, sz, v)) if unpriv else (lambda a, sz, v: cpu.MemU(a, sz, v))
    t = o['t']
    # ---- dual
    if base_op in ('LDRD', 'STRD'):
        t2 = o['t2']
        # with the Large Physical Address Extension a doubleword-aligned LDRD / STRD is ONE 64-bit access (one translation);
        # the register halves are chosen by the data endianness.  It differs from two word accesses only when the first
        # word stored changes the translation of the second (a store into the live translation table).
        single64 = bool(cpu.cfg.get('have_lpae')) and (address & 7) == 0
        big = bool(cpu.bit(9))
        if load:
            try:
                if single64:
                    data = cpu.MemA(address, 8)
                    v1, v2 = ((data >> 32) & M32, data & M32) if big else (data & M32, (data >> 32) & M32)
                else:
                    v1 = cpu.MemA(address, 4)
                    v2 = cpu.MemA((address + 4) & M32, 4)
            except RefAbort:
                # a Data Abort on either word leaves the destination registers UNKNOWN - also when one of them is the base
                # register (no write-back): same latitude as for the base-in-list case of an aborted LDM
                for x in (t, t2):
                    if x != 15:
                        cpu.set_unknown(x)
                raise
            cpu.setR(t, v1)
            cpu.setR(t2, v2)
        else:
            try:
                if single64:
                    lo_, hi_ = (cpu.R(t2), cpu.R(t)) if big else (cpu.R(t), cpu.R(t2))
                    cpu.MemA(address, 8, ((hi_ & M32) << 32) | (lo_ & M32))
                else:
                    cpu.MemA(address, 4, cpu.R(t))
                    cpu.MemA((address + 4) & M32, 4, cpu.R(t2))
            except RefAbort:
                _written_unknown(cpu)
                raise
        if wback:
            cpu.setR(n, offset_addr)
        return
    if load:
        data = rd(address, size)
        if wback:
            cpu.setR(n, offset_addr)
        if size == 4:
            if t == 15:
                if address & 3:
                    raise RefUnpredictable('load to PC from an unaligned address')
                cpu.load_write_pc(data)
            elif cpu.unaligned_support() or (address & 3) == 0:
                cpu.setR(t, data)
            elif thumb:
                cpu.setR(t, 0)
                cpu.set_unknown(t)
            else:
                cpu.setR(t, B.ROR(data, 32, 8 * (address & 3)))
        elif size == 2:
            if cpu.unaligned_support() or (address & 1) == 0:
                cpu.setR(t, B.SignExtend(data, 16, 32) if signed else data)
            else:
                cpu.setR(t, 0)
                cpu.set_unknown(t)
        else:
            cpu.setR(t, B.SignExtend(data, 8, 32) if signed else data)
    else:
        value = pc_store_value(cpu) if t == 15 else cpu.R(t)
        if size == 4:
            if thumb and not (cpu.unaligned_support() or (address & 3) == 0):
                wr(address, 4, value)
                _written_unknown(cpu)
            else:
                wr(address, 4, value)
        elif size == 2:
            wr(address, 2, value & 0xFFFF)
            if not (cpu.unaligned_support() or (address & 1) == 0):
                _written_unknown(cpu)
        else:
            wr(address, 1, value & 0xFF)
        if wback:
            cpu.setR(n, offset_addr)


def _written_unknown(cpu):
    cpu.mem_unknown.update(cpu.footprint_w)


# ---------------------------------------------------------------------------------- exclusives
@sem('ldrex')
def ldrex(cpu, o, row):
    size = int(row.sem.split(':')[1])
    address = (cpu.R(o['n']) + o.get('imm32', 0)) & M32
    if size == 8 and address != B.Align(address, 8):
        raise RefAbort('alignment', address, False)
    # SetExclusiveMonitors translates the address (read) before the access
    cpu.translate(address, cpu.is_priv(), False, size, True)
    if size == 8:
        # MemA[address,8] then "R[t] = if BigEndian() then value<63:32> else value<31:0>": in both byte orders Rt is
        # the word at address and Rt2 the word at address+4, each read with the current endianness
        lo = cpu.MemA(address, 4)
        hi = cpu.MemA((address + 4) & M32, 4)
        cpu.setR(o['t'], lo)
        cpu.setR(o['t2'], hi)
    else:
        cpu.setR(o['t'], cpu.MemA(address, size))


@sem('strex')
def strex(cpu, o, row):
    size = int(row.sem.split(':')[1])
    address = (cpu.R(o['n']) + o.get('imm32', 0)) & M32
    # ExclusiveMonitorsPass: alignment check and a write translation come first; this implementation's
    # monitors never grant (permitted: STREX may always fail), so no store and status 1
    if address != B.Align(address, size):
        raise RefAbort('alignment', address, True)
    cpu.translate(address, cpu.is_priv(), True, size, True)
    cpu.setR(o['d'], 1)


@sem('clrex')
def clrex(cpu, o, row):
    pass


# ---------------------------------------------------------------------------------- block transfers
def _ldm_core(cpu, address, registers, n, wback, final, to_mode=None, unaligned=False, pc_fn=None):
    loaded = []
    try:
        for i in range(15):
            if (registers >> i) & 1:
                v = cpu.MemU(address, 4) if unaligned else cpu.MemA(address, 4)
                loaded.append((i, v))
                address = (address + 4) & M32
        pcv = None
        if (registers >> 15) & 1:
            if unaligned and (address & 3):
                raise RefUnpredictable('POP {pc} from an unaligned address')
            pcv = cpu.MemU(address, 4) if unaligned else cpu.MemA(address, 4)
    except RefAbort:
        for i in range(15):
            if (registers >> i) & 1:
                cpu.set_unknown(i, to_mode)      # incl. the base when it is in the list
        raise
    for i, v in loaded:
        cpu.setR(i, v, to_mode)
    return pcv


@sem('ldm')
def ldm(cpu, o, row):
    mode = row.sem.split(':')[1]
    n, regs, wback = o['n'], o['registers'], o['wback']
    cnt = 4 * bc(regs)
    rn = cpu.R(n)
    start = {'IA': rn, 'IB': rn + 4, 'DA': rn - cnt + 4, 'DB': rn - cnt}[mode] & M32
    final = (rn + cnt if mode in ('IA', 'IB') else rn - cnt) & M32
    pcv = _ldm_core(cpu, start, regs, n, wback, final)
    if wback:
        if (regs >> n) & 1:
            cpu.setR(n, 0)
            cpu.set_unknown(n)
        else:
            cpu.setR(n, final)
    if pcv is not None:
        cpu.load_write_pc(pcv)


def _stm_values(cpu, regs, n, wback, from_mode=None):
    lowest = B.LowestSetBit(regs, 16)
    out = []
    for i in range(15):
        if (regs >> i) & 1:
            unk = (i == n and wback and i != lowest)
            out.append((cpu.Rmode(i, from_mode) if from_mode is not None else cpu.R(i), unk))
    if (regs >> 15) & 1:
        out.append((pc_store_value(cpu), False))
    return out


def _stm_core(cpu, address, values, unaligned=False):
    try:
        for v, unk in values:
            before = set(cpu.footprint_w)
            if unaligned:
                cpu.MemU(address, 4, v)
            else:
                cpu.MemA(address, 4, v)
            if unk:
                cpu.mem_unknown.update(cpu.footprint_w - before)
            address = (address + 4) & M32
    except RefAbort:
        _written_unknown(cpu)
        raise


@sem('stm')
def stm(cpu, o, row):
    mode = row.sem.split(':')[1]
    n, regs, wback = o['n'], o['registers'], o['wback']
    cnt = 4 * bc(regs)
    rn = cpu.R(n)
    start = {'IA': rn, 'IB': rn + 4, 'DA': rn - cnt + 4, 'DB': rn - cnt}[mode] & M32
    final = (rn + cnt if mode in ('IA', 'IB') else rn - cnt) & M32
    _stm_core(cpu, start, _stm_values(cpu, regs, n, wback))
    if wback:
        cpu.setR(n, final)


@sem('pop')
def pop(cpu, o, row):
    regs, ua = o['registers'], bool(o['unaligned_allowed'])
    sp = cpu.R(13)
    pcv = _ldm_core(cpu, sp, regs, 13, True, None, unaligned=ua)
    if (regs >> 13) & 1:
        cpu.setR(13, 0)
        cpu.set_unknown(13)
    else:
        cpu.setR(13, sp + 4 * bc(regs))
    if pcv is not None:
        cpu.load_write_pc(pcv)


@sem('push')
def push(cpu, o, row):
    regs, ua = o['registers'], bool(o['unaligned_allowed'])
    sp = cpu.R(13)
    cnt = 4 * bc(regs)
    start = (sp - cnt) & M32
    lowest = B.LowestSetBit(regs, 16)
    values = []
    for i in range(15):
        if (regs >> i) & 1:
            values.append((cpu.R(i), i == 13 and i != lowest))
    if (regs >> 15) & 1:
        values.append((pc_store_value(cpu), False))
    _stm_core(cpu, start, values, unaligned=ua)
    cpu.setR(13, sp - cnt)


@sem('ldm_user')
def ldm_user(cpu, o, row):
    if cpu.mode == M_HYP:
        raise RefUndefined()
    if cpu.mode in (M_USR, M_SYS):
        raise RefUnpredictable('LDM (user registers) in User/System mode')
    n, regs = o['n'], o['registers']
    length = 4 * bc(regs)
    rn = cpu.R(n)
    address = (rn if o['increment'] else rn - length) & M32
    if o['word_higher']:
        address = (address + 4) & M32
    _ldm_core(cpu, address, regs, 16, False, None, to_mode=M_USR)


@sem('stm_user')
def stm_user(cpu, o, row):
    if cpu.mode == M_HYP:
        raise RefUndefined()
    if cpu.mode in (M_USR, M_SYS):
        raise RefUnpredictable('STM (user registers) in User/System mode')
    n, regs = o['n'], o['registers']
    length = 4 * bc(regs)
    rn = cpu.R(n)
    address = (rn if o['increment'] else rn - length) & M32
    if o['word_higher']:
        address = (address + 4) & M32
    _stm_core(cpu, address, _stm_values(cpu, regs, 16, False, from_mode=M_USR))


def _return_from_exception(cpu, new_pc, spsr_value):
    cpu.cpsr_write_by_instr(spsr_value, 0b1111, True)
    cpu.it_frozen = True
    if cpu.mode == M_HYP and cpu.bit(24) and cpu.bit(5):
        raise RefUnpredictable('return to Hyp mode in ThumbEE state')
    cpu.branch_write_pc(new_pc)


@sem('ldm_eret')
def ldm_eret(cpu, o, row):
    if cpu.mode == M_HYP:
        raise RefUndefined()
    if cpu.mode in (M_USR, M_SYS):
        raise RefUnpredictable('LDM (exception return) in User/System mode')
    n, regs, wback = o['n'], o['registers'] & 0x7FFF, o['wback']
    length = 4 * bc(regs) + 4
    rn = cpu.R(n)
    address = (rn if o['increment'] else rn - length) & M32
    if o['word_higher']:
        address = (address + 4) & M32
    spsr_value = cpu.spsr()
    pcv = _ldm_core(cpu, address, regs | 0x8000, n, wback, None)
    if wback:
        if (regs >> n) & 1:
            cpu.setR(n, 0)
            cpu.set_unknown(n)
        else:
            cpu.setR(n, rn + length if o['increment'] else rn - length)
    _return_from_exception(cpu, pcv, spsr_value)


@sem('srs')
def srs(cpu, o, row):
    if cpu.mode == M_HYP:
        raise RefUndefined()
    if cpu.mode in (M_USR, M_SYS):
        raise RefUnpredictable('SRS in User/System mode')
    mode = o['mode']
    if mode == M_HYP or cpu.bad_mode(mode):
        raise RefUnpredictable('SRS to Hyp or an unimplemented mode')
    if not cpu.is_secure() and (mode == M_MON or (mode == M_FIQ and (cpu.s['nsacr'] >> 19) & 1)):
        raise RefUnpredictable('SRS to a Secure-only bank from Non-secure')
    base = cpu.Rmode(13, mode)
    address = (base if o['increment'] else base - 8) & M32
    if o['word_higher']:
        address = (address + 4) & M32
    try:
        cpu.MemA(address, 4, cpu.R(14))
        cpu.MemA((address + 4) & M32, 4, cpu.spsr())
    except RefAbort:
        _written_unknown(cpu)
        raise
    if o['wback']:
        cpu.setR(13, base + 8 if o['increment'] else base - 8, mode)


@sem('rfe')
def rfe(cpu, o, row):
    if cpu.mode == M_HYP:
        raise RefUndefined()
    if cpu.mode == M_USR:
        raise RefUnpredictable('RFE in User mode')
    n = o['n']
    rn = cpu.R(n)
    address = (rn if o['increment'] else rn - 8) & M32
    if o['word_higher']:
        address = (address + 4) & M32
    new_pc = cpu.MemA(address, 4)
    spsr_value = cpu.MemA((address + 4) & M32, 4)
    if o['wback']:
        cpu.setR(n, rn + 8 if o['increment'] else rn - 8)
    _return_from_exception(cpu, new_pc, spsr_value)
