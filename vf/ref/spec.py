"""Reference encoding tables — framework.  One table per instruction set; a row is a bit pattern
(fields named by a single letter; 'z' = should-be-zero, 'o' = should-be-one), an optional SEE guard
(class selection: when it holds, the word belongs to another row), an operand decoder (from the
manual's "encoding-specific operations") and a semantics key.  Rows are matched by LINEAR SCAN, a
different algorithm from the repository's nested decoder trees.

Outcome classes of decode():  ('INSTR', row, operands) | ('UNPREDICTABLE', row, why) |
('UNDEFINED', row-or-None) | ('OPTIONAL', row) — OPTIONAL is fixed in the tables, never derived
from what the emulator does."""
from vf.ref import bits as B


class Unpredictable(Exception):
    pass


class Undefined(Exception):
    pass


class Fields:
    __slots__ = ('_d',)

    def __init__(self, d):
        object.__setattr__(self, '_d', d)

    def __getattr__(self, k):
        try:
            return self._d[k]
        except KeyError:
            raise AttributeError(k)


class Row:
    def __init__(self, name, pattern, see, dec, sem, kind='INSTR'):
        self.name = name
        self.sem = sem
        self.kind = kind                # INSTR | OPTIONAL | UNDEFINED | UNALLOC_HINT
        p = pattern.replace(' ', '')
        self.width = len(p)
        self.pattern = p
        self.mask = self.value = 0
        self.sb_mask = self.sb_value = 0
        self.fields = {}
        for i, ch in enumerate(p):
            bit = self.width - 1 - i
            if ch in '01':
                self.mask |= 1 << bit
                self.value |= int(ch) << bit
            elif ch == 'z':
                self.sb_mask |= 1 << bit
            elif ch == 'o':
                self.sb_mask |= 1 << bit
                self.sb_value |= 1 << bit
            elif ch == 'x':
                pass
            else:
                self.fields.setdefault(ch, []).append(bit)
        self.see_src = see
        self.see = compile(see, '<see:%s>' % name, 'eval') if see else None
        self.guard_fields = set(self.see.co_names) & set(self.fields) if see else set()
        self.dec = dec
        self.has_cond = p.startswith('cccc') and self.width == 32
        if self.has_cond:
            self.guard_fields.add('c')

    def extract(self, w, sub=None):
        """field values; with sub (a traced substring function) only the fields the class-selection guard
        needs are extracted, as traced bit selections"""
        d = {}
        for ch, bits_ in self.fields.items():
            if sub is not None and ch not in self.guard_fields:
                continue
            runs = []
            hi = lo = bits_[0]
            for b in bits_[1:]:
                if b == lo - 1:
                    lo = b
                else:
                    runs.append((hi, lo))
                    hi = lo = b
            runs.append((hi, lo))
            if sub is None:
                v = 0
                for hi, lo in runs:
                    v = (v << (hi - lo + 1)) | ((w >> lo) & ((1 << (hi - lo + 1)) - 1))
                d[ch] = v
            else:
                assert len(runs) == 1, 'split field in a traced guard: %s.%s' % (self.name, ch)
                d[ch] = sub(w, runs[0][0], runs[0][1])
        return d


def popcount_lt2(x, width=16):
    """BitCount(x) < 2 as a disjunction of equalities (works on ints and on traced bit selections)"""
    if x == 0:
        return True
    for i in range(width):
        if x == (1 << i):
            return True
    return False


GUARD_ENV = {'popcount_lt2': popcount_lt2}


class Table:
    def __init__(self, name, width):
        self.name = name
        self.width = width
        self.rows = []

    def add_text(self, text, decoders, kind='INSTR'):
        for line in text.strip().splitlines():
            line = line.split('#')[0].strip()
            if not line:
                continue
            parts = [x.strip() for x in line.split('|')]
            name, pattern = parts[0], parts[1]
            see = parts[2] if len(parts) > 2 and parts[2] else None
            dec = parts[3] if len(parts) > 3 and parts[3] else None
            sem = parts[4] if len(parts) > 4 and parts[4] else None
            k = kind
            if name.startswith('!'):
                name = name[1:]
                k = 'OPTIONAL'
            elif name.startswith('?'):
                name = name[1:]
                k = 'UNALLOC_HINT'
            elif name.startswith('~'):
                name = name[1:]
                k = 'UNDEFINED'
            fn = decoders.get(dec) if dec else None
            if dec and fn is None:
                raise KeyError('decoder %s for row %s' % (dec, name))
            row = Row(name, pattern, see, fn, sem, k)
            assert row.width == self.width, (name, row.width)
            self.rows.append(row)

    def match(self, w, sub=None, eq=None):
        """class selection only.  Returns the first row whose pattern matches and whose SEE guard does not
        send the word elsewhere, or None.  With sub/eq (traced primitives) every comparison is logged."""
        for row in self.rows:
            if eq is None:
                if (w & row.mask) != row.value:
                    continue
            else:
                if not eq(w, row.mask, row.value):
                    continue
            if row.has_cond or row.see is not None:
                f = row.extract(w, sub)
                if row.has_cond and f['c'] == 15:
                    continue
                if row.see is not None and eval(row.see, GUARD_ENV, f):
                    continue
            return row
        return None

    def decode(self, w, ctx):
        row = self.match(w)
        if row is None:
            return ('UNDEFINED', None, None)
        if row.kind != 'INSTR':
            return (row.kind, row, None)
        f = row.extract(w)
        if (w & row.sb_mask) != row.sb_value:
            return ('UNPREDICTABLE', row, 'should-be bits')
        if row.dec is None:
            return ('INSTR', row, {})
        try:
            ops = row.dec(Fields(f), ctx)
        except Unpredictable as ex:
            return ('UNPREDICTABLE', row, str(ex))
        except Undefined:
            return ('UNDEFINED', row, None)
        return ('INSTR', row, ops)


class Ctx:
    """what decode may depend on besides the word: APSR.C, IT position, architecture version, instruction set"""

    def __init__(self, C=0, in_it=False, last_it=False, arch=7, iset='arm', thumbee=False):
        self.C = C
        self.in_it = in_it
        self.last_it = last_it
        self.arch = arch
        self.iset = iset
        self.thumbee = thumbee


def unpred(cond, why=''):
    if cond:
        raise Unpredictable(why)


def undef(cond):
    if cond:
        raise Undefined()
