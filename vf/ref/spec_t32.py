"""Thumb 32-bit encoding table (DDI 0406C A6.3 + encoding diagrams).  Word = hw1:hw2."""
from vf.ref.spec import Table, unpred, undef
from vf.ref import bits as B
from vf.ref.spec_t32_rows import ROWS

D = {}


def dec(name):
    def reg(fn):
        D[name] = fn
        return fn
    return reg


def bc(x):
    return bin(x).count('1')


def bad(*regs):
    """register numbers that may be neither SP nor PC"""
    return any(r in (13, 15) for r in regs)


def imm32_c(f, x):
    imm32, c, unp = B.ThumbExpandImm_C((f.i << 11) | (f.j << 8) | f.k, x.C)
    unpred(unp)
    return imm32, c


# ---------------------------------------------------------------- data processing (modified immediate)
@dec('dpi_c')               # AND BIC ORR ORN EOR
def _(f, x):
    imm32, c = imm32_c(f, x)
    unpred(f.d == 13 or (f.d == 15) or bad(f.n))
    return dict(d=f.d, n=f.n, setflags=f.S, imm32=imm32, carry=c)


@dec('dpi_c_orr')           # ORR: n may not be 13
def _(f, x):
    imm32, c = imm32_c(f, x)
    unpred(bad(f.d) or f.n == 13)
    return dict(d=f.d, n=f.n, setflags=f.S, imm32=imm32, carry=c)


@dec('dpi_test_c')          # TST TEQ
def _(f, x):
    imm32, c = imm32_c(f, x)
    unpred(bad(f.n))
    return dict(n=f.n, imm32=imm32, carry=c)


@dec('dpi_mov_c')           # MOV MVN
def _(f, x):
    imm32, c = imm32_c(f, x)
    unpred(bad(f.d))
    return dict(d=f.d, setflags=f.S, imm32=imm32, carry=c)


@dec('dpi')                 # ADC SBC RSB
def _(f, x):
    imm32, c = imm32_c(f, x)
    unpred(bad(f.d, f.n))
    return dict(d=f.d, n=f.n, setflags=f.S, imm32=imm32)


@dec('dpi_addsub')          # ADD SUB T3: n may be anything but 15 (13 is the SP form)
def _(f, x):
    imm32, c = imm32_c(f, x)
    unpred(f.d == 13 or (f.d == 15 and f.S == 0) or f.n == 15)
    return dict(d=f.d, n=f.n, setflags=f.S, imm32=imm32)


@dec('dpi_cmp')             # CMN CMP
def _(f, x):
    imm32, c = imm32_c(f, x)
    unpred(f.n == 15)
    return dict(n=f.n, imm32=imm32)


@dec('dpi_sp')              # ADD/SUB (SP plus immediate) T3/T2
def _(f, x):
    imm32, c = imm32_c(f, x)
    unpred(f.d == 15 and f.S == 0)
    return dict(d=f.d, setflags=f.S, imm32=imm32)


# ---------------------------------------------------------------- plain binary immediate
def imm12(f):
    return (f.i << 11) | (f.j << 8) | f.k


@dec('addw')
def _(f, x):
    unpred(bad(f.d))
    return dict(d=f.d, n=f.n, setflags=0, imm32=imm12(f))


@dec('addw_sp')
def _(f, x):
    unpred(f.d == 15)
    return dict(d=f.d, setflags=0, imm32=imm12(f))


@dec('adr_add')
def _(f, x):
    unpred(bad(f.d))
    return dict(d=f.d, imm32=imm12(f), add=1)


@dec('adr_sub')
def _(f, x):
    unpred(bad(f.d))
    return dict(d=f.d, imm32=imm12(f), add=0)


@dec('movw')
def _(f, x):
    unpred(bad(f.d))
    return dict(d=f.d, setflags=0, imm32=(f.h << 12) | imm12(f), carry=None)


@dec('movt')
def _(f, x):
    unpred(bad(f.d))
    return dict(d=f.d, imm16=(f.h << 12) | imm12(f))


@dec('ssat')
def _(f, x):
    unpred(bad(f.d, f.n))
    st, sn = B.DecodeImmShift(f.h << 1, (f.j << 2) | f.k)
    return dict(d=f.d, n=f.n, saturate_to=f.s + 1, shift_t=st, shift_n=sn)


@dec('usat')
def _(f, x):
    unpred(bad(f.d, f.n))
    st, sn = B.DecodeImmShift(f.h << 1, (f.j << 2) | f.k)
    return dict(d=f.d, n=f.n, saturate_to=f.s, shift_t=st, shift_n=sn)


@dec('ssat16')
def _(f, x):
    unpred(bad(f.d, f.n))
    return dict(d=f.d, n=f.n, saturate_to=f.s + 1)


@dec('usat16')
def _(f, x):
    unpred(bad(f.d, f.n))
    return dict(d=f.d, n=f.n, saturate_to=f.s)


@dec('bfx')
def _(f, x):
    lsb = (f.j << 2) | f.k
    unpred(bad(f.d, f.n))
    unpred(lsb + f.w > 31)
    return dict(d=f.d, n=f.n, lsbit=lsb, widthminus1=f.w)


@dec('bfi')
def _(f, x):
    lsb = (f.j << 2) | f.k
    unpred(bad(f.d) or f.n == 13)
    unpred(f.h < lsb)
    return dict(d=f.d, n=f.n, lsbit=lsb, msbit=f.h)


@dec('bfc')
def _(f, x):
    lsb = (f.j << 2) | f.k
    unpred(bad(f.d))
    unpred(f.h < lsb)
    return dict(d=f.d, lsbit=lsb, msbit=f.h)


# ---------------------------------------------------------------- shifted register
def sh(f):
    return B.DecodeImmShift(f.t, (f.j << 2) | f.k)


@dec('dpr')                 # AND BIC ORR ORN EOR ADC SBC RSB
def _(f, x):
    st, sn = sh(f)
    unpred(bad(f.d, f.n, f.m))
    return dict(d=f.d, n=f.n, m=f.m, setflags=f.S, shift_t=st, shift_n=sn)


@dec('dpr_orr')
def _(f, x):
    st, sn = sh(f)
    unpred(bad(f.d, f.m) or f.n == 13)
    return dict(d=f.d, n=f.n, m=f.m, setflags=f.S, shift_t=st, shift_n=sn)


@dec('dpr_addsub')
def _(f, x):
    st, sn = sh(f)
    unpred(f.d == 13 or (f.d == 15 and f.S == 0) or f.n == 15 or bad(f.m))
    return dict(d=f.d, n=f.n, m=f.m, setflags=f.S, shift_t=st, shift_n=sn)


@dec('dpr_sp_add')
def _(f, x):
    st, sn = sh(f)
    unpred(f.d == 13 and (st != 'LSL' or sn > 3))
    unpred((f.d == 15 and f.S == 0) or bad(f.m))
    return dict(d=f.d, m=f.m, setflags=f.S, shift_t=st, shift_n=sn)


@dec('dpr_sp_sub')
def _(f, x):
    st, sn = sh(f)
    unpred(f.d == 13 and (st != 'LSL' or sn > 3))
    unpred((f.d == 15 and f.S == 0) or bad(f.m))
    return dict(d=f.d, m=f.m, setflags=f.S, shift_t=st, shift_n=sn)


@dec('dpr_test')            # TST TEQ
def _(f, x):
    st, sn = sh(f)
    unpred(bad(f.n, f.m))
    return dict(n=f.n, m=f.m, shift_t=st, shift_n=sn)


@dec('dpr_cmp')             # CMN CMP
def _(f, x):
    st, sn = sh(f)
    unpred(f.n == 15 or bad(f.m))
    return dict(n=f.n, m=f.m, shift_t=st, shift_n=sn)


@dec('dpr_mvn')
def _(f, x):
    st, sn = sh(f)
    unpred(bad(f.d, f.m))
    return dict(d=f.d, m=f.m, setflags=f.S, shift_t=st, shift_n=sn)


@dec('mov_reg_t3')
def _(f, x):
    unpred(f.S == 1 and bad(f.d, f.m))
    unpred(f.S == 0 and (f.d == 15 or f.m == 15 or (f.d == 13 and f.m == 13)))
    return dict(d=f.d, m=f.m, setflags=f.S)


def _mk_shift_imm(ty):
    def fn(f, x):
        st, sn = B.DecodeImmShift(ty, (f.j << 2) | f.k)
        unpred(bad(f.d, f.m))
        return dict(d=f.d, m=f.m, setflags=f.S, shift_n=sn)
    return fn


for _n, _ty in (('lsl_imm', 0), ('lsr_imm', 1), ('asr_imm', 2), ('ror_imm', 3)):
    D[_n] = _mk_shift_imm(_ty)


@dec('rrx')
def _(f, x):
    unpred(bad(f.d, f.m))
    return dict(d=f.d, m=f.m, setflags=f.S)


@dec('pkh')
def _(f, x):
    unpred(bad(f.d, f.n, f.m))
    st, sn = B.DecodeImmShift(f.T << 1, (f.j << 2) | f.k)
    return dict(d=f.d, n=f.n, m=f.m, tb_form=f.T, shift_t=st, shift_n=sn)


# ---------------------------------------------------------------- register (A6.3.12)
@dec('shift_reg')
def _(f, x):
    unpred(bad(f.d, f.n, f.m))
    return dict(d=f.d, n=f.n, m=f.m, setflags=f.S)


@dec('xta')
def _(f, x):
    unpred(bad(f.d, f.m) or f.n == 13)
    return dict(d=f.d, n=f.n, m=f.m, rotation=f.r * 8)


@dec('xt')
def _(f, x):
    unpred(bad(f.d, f.m))
    return dict(d=f.d, m=f.m, rotation=f.r * 8)


@dec('dnm')
def _(f, x):
    unpred(bad(f.d, f.n, f.m))
    return dict(d=f.d, n=f.n, m=f.m)


@dec('dm_rev')              # REV REV16 RBIT REVSH CLZ: Rm is encoded twice and must agree
def _(f, x):
    unpred(f.n != f.m)
    unpred(bad(f.d, f.m))
    return dict(d=f.d, m=f.m)


# ---------------------------------------------------------------- multiplies
@dec('mul')
def _(f, x):
    unpred(bad(f.d, f.n, f.m))
    return dict(d=f.d, n=f.n, m=f.m, setflags=0)


@dec('mla')
def _(f, x):
    unpred(bad(f.d, f.n, f.m) or f.a == 13)
    return dict(d=f.d, n=f.n, m=f.m, a=f.a, setflags=0)


@dec('mls')
def _(f, x):
    unpred(bad(f.d, f.n, f.m, f.a))
    return dict(d=f.d, n=f.n, m=f.m, a=f.a)


@dec('smla_xy')
def _(f, x):
    unpred(bad(f.d, f.n, f.m) or f.a == 13)
    return dict(d=f.d, n=f.n, m=f.m, a=f.a, n_high=f.N, m_high=f.M)


@dec('smul_xy')
def _(f, x):
    unpred(bad(f.d, f.n, f.m))
    return dict(d=f.d, n=f.n, m=f.m, n_high=f.N, m_high=f.M)


@dec('smlad')
def _(f, x):
    unpred(bad(f.d, f.n, f.m) or f.a == 13)
    return dict(d=f.d, n=f.n, m=f.m, a=f.a, m_swap=f.M)


@dec('smuad')
def _(f, x):
    unpred(bad(f.d, f.n, f.m))
    return dict(d=f.d, n=f.n, m=f.m, m_swap=f.M)


@dec('smlaw')
def _(f, x):
    unpred(bad(f.d, f.n, f.m) or f.a == 13)
    return dict(d=f.d, n=f.n, m=f.m, a=f.a, m_high=f.M)


@dec('smulw')
def _(f, x):
    unpred(bad(f.d, f.n, f.m))
    return dict(d=f.d, n=f.n, m=f.m, m_high=f.M)


@dec('smmla')
def _(f, x):
    unpred(bad(f.d, f.n, f.m) or f.a == 13)
    return dict(d=f.d, n=f.n, m=f.m, a=f.a, round_=f.R)


@dec('smmls')
def _(f, x):
    unpred(bad(f.d, f.n, f.m, f.a))
    return dict(d=f.d, n=f.n, m=f.m, a=f.a, round_=f.R)


@dec('smmul')
def _(f, x):
    unpred(bad(f.d, f.n, f.m))
    return dict(d=f.d, n=f.n, m=f.m, round_=f.R)


@dec('usada8')
def _(f, x):
    unpred(bad(f.d, f.n, f.m) or f.a == 13)
    return dict(d=f.d, n=f.n, m=f.m, a=f.a)


@dec('mull')
def _(f, x):
    unpred(bad(f.l, f.h, f.n, f.m) or f.h == f.l)
    return dict(d_lo=f.l, d_hi=f.h, n=f.n, m=f.m, setflags=0)


@dec('umaal')
def _(f, x):
    unpred(bad(f.l, f.h, f.n, f.m) or f.h == f.l)
    return dict(d_lo=f.l, d_hi=f.h, n=f.n, m=f.m)


@dec('smlal_xy')
def _(f, x):
    unpred(bad(f.l, f.h, f.n, f.m) or f.h == f.l)
    return dict(d_lo=f.l, d_hi=f.h, n=f.n, m=f.m, n_high=f.N, m_high=f.M)


@dec('smlald')
def _(f, x):
    unpred(bad(f.l, f.h, f.n, f.m) or f.h == f.l)
    return dict(d_lo=f.l, d_hi=f.h, n=f.n, m=f.m, m_swap=f.M)


@dec('div')
def _(f, x):
    unpred(bad(f.d, f.n, f.m))
    return dict(d=f.d, n=f.n, m=f.m)


# ---------------------------------------------------------------- loads and stores
@dec('ls_imm12')            # STR/STRB/STRH/LDRB.. T2/T3 with imm12: offset addressing
def _(f, x):
    return dict(t=f.t, n=f.n, imm32=f.i, index=1, add=1, wback=0)


def _t_rules(f, x, is_load, word):
    if is_load and word:
        unpred(f.t == 15 and x.in_it and not x.last_it)
    elif is_load:
        unpred(f.t == 13)
    else:
        unpred(f.t == 15 if word else bad(f.t))


@dec('str_imm12')
def _(f, x):
    unpred(f.t == 15)
    return dict(t=f.t, n=f.n, imm32=f.i, index=1, add=1, wback=0)


@dec('strbh_imm12')
def _(f, x):
    unpred(bad(f.t))
    return dict(t=f.t, n=f.n, imm32=f.i, index=1, add=1, wback=0)


@dec('ldr_imm12')
def _(f, x):
    unpred(f.t == 15 and x.in_it and not x.last_it)
    return dict(t=f.t, n=f.n, imm32=f.i, index=1, add=1, wback=0)


@dec('ldrbh_imm12')
def _(f, x):
    unpred(f.t == 13)
    return dict(t=f.t, n=f.n, imm32=f.i, index=1, add=1, wback=0)


@dec('str_imm8')
def _(f, x):
    undef(f.P == 0 and f.W == 0)
    unpred(f.t == 15 or (f.W and f.n == f.t))
    return dict(t=f.t, n=f.n, imm32=f.i, index=f.P, add=f.U, wback=f.W)


@dec('strbh_imm8')
def _(f, x):
    undef(f.P == 0 and f.W == 0)
    unpred(bad(f.t) or (f.W and f.n == f.t))
    return dict(t=f.t, n=f.n, imm32=f.i, index=f.P, add=f.U, wback=f.W)


@dec('ldr_imm8')
def _(f, x):
    undef(f.P == 0 and f.W == 0)
    unpred(f.W and f.n == f.t)
    unpred(f.t == 15 and x.in_it and not x.last_it)
    return dict(t=f.t, n=f.n, imm32=f.i, index=f.P, add=f.U, wback=f.W)


@dec('ldrbh_imm8')
def _(f, x):
    undef(f.P == 0 and f.W == 0)
    unpred(f.t == 13 or (f.t == 15 and f.W == 1) or (f.W and f.n == f.t))
    return dict(t=f.t, n=f.n, imm32=f.i, index=f.P, add=f.U, wback=f.W)


@dec('ldrt')                # LDRT STRT ... T1
def _(f, x):
    unpred(bad(f.t))
    return dict(t=f.t, n=f.n, post_index=0, add=1, register_form=0, imm32=f.i)


@dec('str_reg')
def _(f, x):
    unpred(f.t == 15 or bad(f.m))
    return dict(t=f.t, n=f.n, m=f.m, index=1, add=1, wback=0, shift_t='LSL', shift_n=f.s)


@dec('strbh_reg')
def _(f, x):
    unpred(bad(f.t, f.m))
    return dict(t=f.t, n=f.n, m=f.m, index=1, add=1, wback=0, shift_t='LSL', shift_n=f.s)


@dec('ldr_reg')
def _(f, x):
    unpred(bad(f.m))
    unpred(f.t == 15 and x.in_it and not x.last_it)
    return dict(t=f.t, n=f.n, m=f.m, shift_t='LSL', shift_n=f.s)


@dec('ldrbh_reg')
def _(f, x):
    unpred(f.t == 13 or bad(f.m))
    return dict(t=f.t, n=f.n, m=f.m, index=1, add=1, wback=0, shift_t='LSL', shift_n=f.s)


@dec('ldr_lit')
def _(f, x):
    unpred(f.t == 15 and x.in_it and not x.last_it)
    return dict(t=f.t, imm32=f.i, add=f.U)


@dec('ldrbh_lit')
def _(f, x):
    unpred(f.t == 13)
    return dict(t=f.t, imm32=f.i, add=f.U)


@dec('push_t3')
def _(f, x):
    unpred(bad(f.t))
    return dict(registers=1 << f.t, unaligned_allowed=1)


@dec('pop_t3')
def _(f, x):
    unpred(f.t == 13 or (f.t == 15 and x.in_it and not x.last_it))
    return dict(registers=1 << f.t, unaligned_allowed=1)


@dec('pld_imm12')
def _(f, x):
    return dict(n=f.n, imm32=f.i, add=1, is_pldw=0)


@dec('pld_imm8')
def _(f, x):
    return dict(n=f.n, imm32=f.i, add=0, is_pldw=0)


@dec('pld_lit')
def _(f, x):
    return dict(imm32=f.i, add=f.U)


@dec('pld_reg')
def _(f, x):
    unpred(bad(f.m))
    return dict(n=f.n, m=f.m, add=1, is_pldw=0, shift_t='LSL', shift_n=f.s)


# dual / exclusive / table branch
@dec('strd_imm')
def _(f, x):
    wback = f.W
    unpred(wback and (f.n == f.t or f.n == f.u))
    unpred(f.n == 15 or bad(f.t, f.u))
    return dict(t=f.t, t2=f.u, n=f.n, imm32=f.i << 2, index=f.P, add=f.U, wback=wback)


@dec('ldrd_imm')
def _(f, x):
    wback = f.W
    unpred(wback and (f.n == f.t or f.n == f.u))
    unpred(bad(f.t, f.u) or f.t == f.u)
    return dict(t=f.t, t2=f.u, n=f.n, imm32=f.i << 2, index=f.P, add=f.U, wback=wback)


@dec('ldrd_lit')
def _(f, x):
    unpred(bad(f.t, f.u) or f.t == f.u)
    unpred(f.W == 1)
    return dict(t=f.t, t2=f.u, imm32=f.i << 2, add=f.U)


@dec('strex')
def _(f, x):
    unpred(bad(f.d, f.t) or f.n == 15)
    unpred(f.d == f.n or f.d == f.t)
    return dict(d=f.d, t=f.t, n=f.n, imm32=f.i << 2)


@dec('ldrex')
def _(f, x):
    unpred(bad(f.t) or f.n == 15)
    return dict(t=f.t, n=f.n, imm32=f.i << 2)


@dec('strexbh')
def _(f, x):
    unpred(bad(f.d, f.t) or f.n == 15)
    unpred(f.d == f.n or f.d == f.t)
    return dict(d=f.d, t=f.t, n=f.n)


@dec('ldrexbh')
def _(f, x):
    unpred(bad(f.t) or f.n == 15)
    return dict(t=f.t, n=f.n)


@dec('strexd')
def _(f, x):
    unpred(bad(f.d, f.t, f.u) or f.n == 15)
    unpred(f.d == f.n or f.d == f.t or f.d == f.u)
    return dict(d=f.d, t=f.t, t2=f.u, n=f.n)


@dec('ldrexd')
def _(f, x):
    unpred(bad(f.t, f.u) or f.t == f.u or f.n == 15)
    return dict(t=f.t, t2=f.u, n=f.n)


@dec('tbb')
def _(f, x):
    unpred(f.n == 13 or bad(f.m))
    unpred(x.in_it and not x.last_it)
    return dict(n=f.n, m=f.m, is_tbh=f.H)


# ---------------------------------------------------------------- block transfers
@dec('stm')
def _(f, x):
    regs = (f.M << 14) | f.r
    unpred(f.n == 15 or bc(regs) < 2)
    unpred(f.W == 1 and (regs >> f.n) & 1)
    return dict(n=f.n, registers=regs, wback=f.W)


@dec('ldm')
def _(f, x):
    regs = (f.P << 15) | (f.M << 14) | f.r
    unpred(f.n == 15 or bc(regs) < 2 or (f.P == 1 and f.M == 1))
    unpred(f.P == 1 and x.in_it and not x.last_it)
    unpred(f.W == 1 and (regs >> f.n) & 1)
    return dict(n=f.n, registers=regs, wback=f.W)


@dec('pop_t2')
def _(f, x):
    regs = (f.P << 15) | (f.M << 14) | f.r
    unpred(bc(regs) < 2 or (f.P == 1 and f.M == 1))
    unpred(f.P == 1 and x.in_it and not x.last_it)
    return dict(registers=regs, unaligned_allowed=0)


@dec('push_t2')
def _(f, x):
    regs = (f.M << 14) | f.r
    unpred(bc(regs) < 2)
    return dict(registers=regs, unaligned_allowed=0)


@dec('srs_db')
def _(f, x):
    return dict(wback=f.W, increment=0, word_higher=0, mode=f.m)


@dec('srs_ia')
def _(f, x):
    return dict(wback=f.W, increment=1, word_higher=0, mode=f.m)


@dec('rfe_db')
def _(f, x):
    unpred(f.n == 15)
    unpred(x.in_it and not x.last_it)
    return dict(n=f.n, wback=f.W, increment=0, word_higher=0)


@dec('rfe_ia')
def _(f, x):
    unpred(f.n == 15)
    unpred(x.in_it and not x.last_it)
    return dict(n=f.n, wback=f.W, increment=1, word_higher=0)


# ---------------------------------------------------------------- branches and miscellaneous control
@dec('b_t3')
def _(f, x):
    unpred(x.in_it)
    imm = (f.S << 20) | (f.K << 19) | (f.J << 18) | (f.h << 12) | (f.l << 1)
    return dict(imm32=B.SignExtend(imm, 21, 32))


def _i24(f):
    i1 = 1 - (f.J ^ f.S)
    i2 = 1 - (f.K ^ f.S)
    return f.S, i1, i2


@dec('b_t4')
def _(f, x):
    unpred(x.in_it and not x.last_it)
    s, i1, i2 = _i24(f)
    imm = (s << 24) | (i1 << 23) | (i2 << 22) | (f.h << 12) | (f.l << 1)
    return dict(imm32=B.SignExtend(imm, 25, 32))


@dec('bl_t1')
def _(f, x):
    unpred(x.in_it and not x.last_it)
    s, i1, i2 = _i24(f)
    imm = (s << 24) | (i1 << 23) | (i2 << 22) | (f.h << 12) | (f.l << 1)
    return dict(imm32=B.SignExtend(imm, 25, 32), target_instr_set='THUMB')


@dec('blx_t2')
def _(f, x):
    undef(f.H == 1)
    unpred(x.in_it and not x.last_it)
    s, i1, i2 = _i24(f)
    imm = (s << 24) | (i1 << 23) | (i2 << 22) | (f.h << 12) | (f.l << 2)
    return dict(imm32=B.SignExtend(imm, 25, 32), target_instr_set='ARM')


@dec('msr_app')
def _(f, x):
    unpred(f.m == 0 or bad(f.n))
    return dict(n=f.n, write_nzcvq=(f.m >> 1) & 1, write_g=f.m & 1)


@dec('msr_sys')
def _(f, x):
    unpred(f.m == 0 or bad(f.n))
    return dict(n=f.n, write_spsr=f.R, mask=f.m)


@dec('mrs')
def _(f, x):
    unpred(bad(f.d))
    return dict(d=f.d, read_spsr=f.R)


@dec('cps')
def _(f, x):
    unpred(f.m != 0 and f.M == 0)
    unpred(((f.i >> 1) & 1) != (1 if (f.A | f.I | f.F) else 0))
    unpred(f.i == 1 or x.in_it)
    return dict(enable=int(f.i == 2), disable=int(f.i == 3), change_mode=f.M, affect_a=f.A, affect_i=f.I,
                affect_f=f.F, mode=f.m)


@dec('none')
def _(f, x):
    return dict()


@dec('enterx')
def _(f, x):
    return dict(is_enterx=f.J)


@dec('dsb')
def _(f, x):
    return dict(option=f.p)


@dec('bxj')
def _(f, x):
    unpred(bad(f.m))
    unpred(x.in_it and not x.last_it)
    return dict(m=f.m)


@dec('subs_pc')
def _(f, x):
    unpred(x.in_it and not x.last_it)
    return dict(imm32=f.i, n=14)


@dec('eret')
def _(f, x):
    unpred(x.in_it and not x.last_it)
    return dict()


@dec('smc')
def _(f, x):
    unpred(x.in_it and not x.last_it)
    return dict()


# ---------------------------------------------------------------- coprocessor
@dec('cdp')
def _(f, x):
    return dict(cp=f.p)


@dec('mcr')
def _(f, x):
    unpred(bad(f.t))
    return dict(cp=f.p, t=f.t)


@dec('mrc')
def _(f, x):
    unpred(f.t == 13)
    return dict(cp=f.p, t=f.t)


@dec('mcrr')
def _(f, x):
    unpred(bad(f.t, f.u))
    return dict(cp=f.p, t=f.t, t2=f.u)


@dec('mrrc')
def _(f, x):
    unpred(bad(f.t, f.u) or f.t == f.u)
    return dict(cp=f.p, t=f.t, t2=f.u)


@dec('stc')
def _(f, x):
    unpred(f.n == 15)
    return dict(cp=f.p, n=f.n, imm32=f.i << 2, index=f.P, add=f.U, wback=f.W)


@dec('ldc_imm')
def _(f, x):
    return dict(cp=f.p, n=f.n, imm32=f.i << 2, index=f.P, add=f.U, wback=f.W)


@dec('ldc_lit')
def _(f, x):
    unpred(f.W == 1 or f.P == 0)
    return dict(cp=f.p, imm32=f.i << 2, index=f.P, add=f.U)


T32 = Table('t32', 32)
T32.add_text(ROWS, D)
