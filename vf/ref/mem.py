"""Reference memory system: MemA / MemU alignment policy and endianness (B2.4.4), PMSA region matching
(B5.3), VMSA short-descriptor walk (B3.19), permission/domain checks, fault syndrome encoding (B3.13/B5.6).
Installed onto RefCPU as methods."""
from vf.ref import bits as B
from vf.ref.model import RefCPU, RefAbort, RefUnpredictable, RefNotModelled, M_HYP, M_USR

M32 = 0xFFFFFFFF


def unaligned_support(cpu):
    return cpu.arch >= 7 or cpu.sctlr(22) == 1


# ------------------------------------------------------------------------------------------ translation
def translate(cpu, va, ispriv, iswrite, size, wasaligned):
    """returns physical address, raises RefAbort"""
    cpu.translations.append((va, bool(ispriv), bool(iswrite)))
    if cpu.cfg['memory_system_architecture'] == 'PMSA':
        return translate_p(cpu, va, ispriv, iswrite, wasaligned)
    return translate_v(cpu, va, ispriv, iswrite, size, wasaligned)


def check_permission(cpu, ap, va, level, domain, iswrite, ispriv, msa, info=None):
    if msa == 'VMSA' and cpu.sctlr(29):          # SCTLR.AFE: AP[0] is the access flag
        ap |= 1
    if ap == 0b000:
        abort = True
    elif ap == 0b001:
        abort = not ispriv
    elif ap == 0b010:
        abort = (not ispriv) and iswrite
    elif ap == 0b011:
        abort = False
    elif ap == 0b100:
        raise RefUnpredictable('AP = 100')
    elif ap == 0b101:
        abort = (not ispriv) or iswrite
    elif ap == 0b110:
        abort = iswrite
    else:
        if msa == 'VMSA':
            abort = iswrite
        else:
            raise RefUnpredictable('AP = 111 in PMSA')
    if abort:
        raise RefAbort('permission', va, iswrite, level=level, domain=domain)


def translate_p(cpu, va, ispriv, iswrite, wasaligned):
    s = cpu.s
    if not cpu.sctlr(0):
        return va
    nregions = (s['mpuir'] >> 8) & 0xFF
    found = None
    for r in range(min(nregions, len(s['drsrs']))):
        rsr = s['drsrs'][r]
        if not (rsr & 1):
            continue
        lsbit = ((rsr >> 1) & 0x1F) + 1
        base = s['drbars'][r]
        if lsbit < 2:
            raise RefUnpredictable('MPU region smaller than 4 bytes')
        if lsbit > 2 and (base & ((1 << lsbit) - 1) & ~3):
            raise RefUnpredictable('MPU region base not aligned to its size')
        if lsbit == 32 or (va >> lsbit) == (base >> lsbit):
            if lsbit >= 8:
                sub = (va >> (lsbit - 3)) & 7
                hit = ((rsr >> (8 + sub)) & 1) == 0
            else:
                hit = True
            if hit:
                found = r              # highest-numbered matching region wins
    if found is None:
        if not cpu.sctlr(17) or not ispriv:           # SCTLR.BR
            raise RefAbort('background', va, iswrite)
        return va
    ap = (s['dracrs'][found] >> 8) & 7
    check_permission(cpu, ap, va, 0, 0, iswrite, ispriv, 'PMSA')
    return va


def mem_type_from_texcb(cpu, texcb, s_bit):
    """Normal / Device / SO (only the type matters here: unaligned accesses to Device/SO)"""
    if cpu.sctlr(28):                                  # TRE: remapped through PRRR
        idx = texcb & 7
        if idx == 6:
            raise RefNotModelled('TEX remap entry 6 is IMPLEMENTATION DEFINED')
        tr = (cpu.s['prrr'] >> (2 * idx)) & 3
        if tr == 3:
            raise RefUnpredictable('PRRR.TRn == 11')
        return ('so', 'device', 'normal')[tr]
    if texcb in (0b00000,):
        return 'so'
    if texcb in (0b00001, 0b01000):
        return 'device'
    if texcb in (0b00010, 0b00011, 0b00100, 0b00111) or texcb & 0b10000:
        return 'normal'
    if texcb == 0b00110:
        raise RefNotModelled('TEXCB 00110 is IMPLEMENTATION DEFINED')
    raise RefUnpredictable('reserved TEX/C/B encoding')


def walk_sd(cpu, mva, iswrite):
    """short-descriptor translation table walk -> dict(pa, domain, level, ap, memtype)"""
    s = cpu.s
    ttbcr = s['ttbcr']
    n = ttbcr & 7
    if n == 0 or (mva >> (32 - n)) == 0:
        ttbr = s['ttbr0_64']
        disabled = (ttbcr >> 4) & 1                    # PD0
    else:
        ttbr = s['ttbr1_64']
        disabled = (ttbcr >> 5) & 1                    # PD1
        n = 0
    if cpu.have_sec() and disabled:
        raise RefAbort('translation', mva, iswrite, level=1, domain=None)
    if cpu.have_virt() and not cpu.is_secure():
        raise RefNotModelled('stage-2 translation of table walks')
    base_hi = (ttbr & M32) >> (14 - n)
    l1addr = ((base_hi << (12 - n)) | ((mva >> 20) & ((1 << (12 - n)) - 1))) << 2
    l1 = cpu.phys_read(l1addr, 4)
    if cpu.sctlr(25):                                  # SCTLR.EE: big-endian descriptors
        l1 = B.BigEndianReverse(l1, 4)
    kind = l1 & 3
    afe = cpu.sctlr(29)
    if kind == 0:
        raise RefAbort('translation', mva, iswrite, level=1, domain=None)
    if kind == 1:
        domain = (l1 >> 5) & 0xF
        l2addr = (((l1 >> 10) << 8) | ((mva >> 12) & 0xFF)) << 2
        l2 = cpu.phys_read(l2addr, 4)
        if cpu.sctlr(25):
            l2 = B.BigEndianReverse(l2, 4)
        if (l2 & 3) == 0:
            raise RefAbort('translation', mva, iswrite, level=2, domain=domain)
        s_bit = (l2 >> 10) & 1
        ap = (((l2 >> 9) & 1) << 2) | ((l2 >> 4) & 3)
        if afe and ((l2 >> 4) & 1) == 0:
            if not cpu.sctlr(17):                      # SCTLR.HA
                raise RefAbort('accessflag', mva, iswrite, level=2, domain=domain)
            raise RefNotModelled('hardware access-flag update')
        if (l2 & 2) == 0:                              # large page
            texcb = (((l2 >> 12) & 7) << 2) | ((l2 >> 2) & 3)
            pa = ((l2 >> 16) << 16) | (mva & 0xFFFF)
        else:                                          # small page
            texcb = (((l2 >> 6) & 7) << 2) | ((l2 >> 2) & 3)
            pa = ((l2 >> 12) << 12) | (mva & 0xFFF)
        return dict(pa=pa, domain=domain, level=2, ap=ap, texcb=texcb, s=s_bit)
    # section or supersection
    texcb = (((l1 >> 12) & 7) << 2) | ((l1 >> 2) & 3)
    s_bit = (l1 >> 16) & 1
    ap = (((l1 >> 15) & 1) << 2) | ((l1 >> 10) & 3)
    if (l1 >> 18) & 1 == 0:
        domain = (l1 >> 5) & 0xF
    else:
        domain = 0
    if afe and ((l1 >> 10) & 1) == 0:
        if not cpu.sctlr(17):
            raise RefAbort('accessflag', mva, iswrite, level=1, domain=domain)
        raise RefNotModelled('hardware access-flag update')
    if (l1 >> 18) & 1 == 0:
        pa = ((l1 >> 20) << 20) | (mva & 0xFFFFF)
    else:
        ext = (((l1 >> 5) & 0xF) << 4) | ((l1 >> 20) & 0xF)
        pa = (ext << 32) | ((l1 >> 24) << 24) | (mva & 0xFFFFFF)
    return dict(pa=pa, domain=domain, level=1, ap=ap, texcb=texcb, s=s_bit)


def mem_type_from_mair(cpu, attrindx, hyp):
    """MAIRn.Attr<indx> -> Normal / Device / SO (B4.1.104); encodings that are IMPLEMENTATION DEFINED or need the
    transient hint are not judged"""
    s = cpu.s
    mair = ((s['hmair1'] << 32) | s['hmair0']) if hyp else ((s['mair1'] << 32) | s['mair0'])
    attr = (mair >> (8 * attrindx)) & 0xFF
    hi, lo = attr >> 4, attr & 0xF
    if hi == 0:
        if lo == 0:
            return 'so'
        if lo == 4:
            return 'device'
        raise RefUnpredictable('MAIR attribute 0000:%s' % bin(lo))
    if hi in (1, 2, 3) or (hi >> 2 == 1 and hi & 3):
        raise RefNotModelled('MAIR transient / IMPLEMENTATION DEFINED attribute')
    if lo == 0:
        raise RefUnpredictable('MAIR inner attribute 0000 with a Normal outer attribute')
    if lo in (1, 2, 3, 5, 6, 7):
        raise RefNotModelled('MAIR inner transient attribute')
    return 'normal'


def walk_ld_s1(cpu, ia, iswrite):
    """long-descriptor stage-1 translation table walk (B3.6, B3.19 TranslationTableWalkLD with stage1 = TRUE)
    -> dict(pa, level, ap, memtype)"""
    s = cpu.s
    hyp = cpu.mode == M_HYP
    found = False
    disabled = False
    M40 = (1 << 40) - 1
    if hyp:
        lookup_secure = False
        t0 = s['htcr'] & 7
        if t0 == 0 or (ia >> (32 - t0)) == 0:
            level = 1 if t0 < 2 else 2
            lb = 9 * level - t0 - 4
            ttbr = s['httbr'] & M40
            found = True
            startbit = 31 - t0
    else:
        lookup_secure = cpu.is_secure()
        ttbcr = s['ttbcr']
        t0 = ttbcr & 7
        t1 = (ttbcr >> 16) & 7
        if t0 == 0 or (ia >> (32 - t0)) == 0:
            level = 1 if t0 < 2 else 2
            lb = 9 * level - t0 - 4
            ttbr = s['ttbr0_64'] & M40
            found = True
            disabled = (ttbcr >> 7) & 1                 # EPD0
            startbit = 31 - t0
        if (t1 == 0 and not found) or (t1 > 0 and (ia >> (32 - t1)) == (1 << t1) - 1):
            level = 1 if t1 < 2 else 2
            lb = 9 * level - t1 - 4
            ttbr = s['ttbr1_64'] & M40
            found = True
            disabled = (ttbcr >> 23) & 1                # EPD1
            startbit = 31 - t1
    if not found or disabled:
        raise RefAbort('translation', ia, iswrite, level=1, domain=None, ld=True)
    if (ttbr & ((1 << lb) - 1)) >> 3:
        raise RefUnpredictable('TTBR bits below the table alignment are not zero')
    base = (ttbr >> lb) << lb
    if cpu.have_virt() and not cpu.is_secure() and not hyp and (s['hcr'] & 1):
        raise RefNotModelled('stage-2 translation of table walks')
    big = ((s['hsctlr'] >> 25) & 1) if hyp else cpu.sctlr(25)
    table_rw, table_user, table_xn, table_pxn = True, True, False, False
    first = True
    while True:
        offset = 9 * level
        lo_bit = 39 - offset
        hi_bit = startbit if first else 47 - offset
        first = False
        index = (ia >> lo_bit) & ((1 << (hi_bit - lo_bit + 1)) - 1)
        desc = cpu.phys_read(base | (index << 3), 8)
        if big:
            desc = B.BigEndianReverse(desc, 8)
        if not desc & 1:
            raise RefAbort('translation', ia, iswrite, level=level, domain=None, ld=True)
        if not desc & 2:
            if level == 3:
                raise RefAbort('translation', ia, iswrite, level=3, domain=None, ld=True)
            break                                        # block
        if level == 3:
            break                                        # page
        base = ((desc >> 12) & ((1 << 28) - 1)) << 12
        lookup_secure = lookup_secure and not (desc >> 63) & 1
        table_rw = table_rw and not (desc >> 62) & 1
        table_user = table_user and not (desc >> 61) & 1
        table_xn = table_xn or bool((desc >> 60) & 1)
        table_pxn = table_pxn or bool((desc >> 59) & 1)
        level += 1
    ialen = 39 - 9 * level
    pa = (((desc & M40) >> ialen) << ialen) | (ia & ((1 << ialen) - 1))
    ap21 = (desc >> 6) & 3
    ng = (desc >> 11) & 1
    pxn = (desc >> 53) & 1
    if not table_rw:
        ap21 |= 2
    if not table_user:
        ap21 &= ~1
    if cpu.is_secure() and not lookup_secure:
        ng = 1
    if not (desc >> 10) & 1:
        raise RefAbort('accessflag', ia, iswrite, level=level, domain=None, ld=True)
    if hyp and (not ap21 & 1 or not table_user or pxn or table_pxn or ng):
        raise RefUnpredictable('Hyp-mode stage-1 descriptor with AP[1] == 0, APTable[0], PXN, PXNTable or nG set')
    return dict(pa=pa, level=level, ap=(ap21 << 1) | 1, memtype=mem_type_from_mair(cpu, (desc >> 2) & 7, hyp))


def translate_v(cpu, va, ispriv, iswrite, size, wasaligned):
    s = cpu.s
    # FCSE
    if (va >> 25) == 0:
        mva = (((s['fcseidr'] >> 25) & 0x7F) << 25) | (va & 0x1FFFFFF)
    else:
        mva = va
    ishyp = cpu.mode == M_HYP
    enabled = ((s['hsctlr'] & 1) if ishyp else cpu.sctlr(0))
    if not enabled:
        if cpu.have_virt() and (s['hcr'] >> 12) & 1 and not cpu.is_secure() and not ishyp:
            memtype = 'normal'                          # HCR.DC
        else:
            memtype = 'so'
        if not wasaligned and memtype != 'normal':
            if not cpu.have_virt():
                raise RefUnpredictable('unaligned access to Strongly-ordered memory (MMU off)')
            raise RefAbort('alignment', mva, iswrite, tohyp=ishyp)
        if cpu.have_virt() and not cpu.is_secure() and not ishyp and (s['hcr'] & 1):
            raise RefNotModelled('stage-2 translation')
        return mva
    if cpu.have_virt() and not cpu.is_secure() and not ishyp and (s['hcr'] >> 27) & 1:
        raise RefUnpredictable('HCR.TGE with the MMU enabled')
    if ishyp or (cpu.cfg['have_lpae'] and (s['ttbcr'] >> 31) & 1):
        r = walk_ld_s1(cpu, mva, iswrite)
        if not wasaligned and r['memtype'] != 'normal':
            if not cpu.have_virt():
                raise RefUnpredictable('unaligned access to Device/Strongly-ordered memory')
            raise RefAbort('alignment', mva, iswrite, tohyp=ishyp, ld=True)
        try:
            check_permission(cpu, r['ap'], mva, r['level'], None, iswrite, ispriv, 'VMSA')
        except RefAbort as ab:
            ab.info['ld'] = True
            raise
        if cpu.have_virt() and not cpu.is_secure() and not ishyp and (s['hcr'] & 1):
            raise RefNotModelled('stage-2 translation')
        return r['pa']
    r = walk_sd(cpu, mva, iswrite)
    memtype = mem_type_from_texcb(cpu, r['texcb'], r['s'])
    if not wasaligned and memtype != 'normal':
        if not cpu.have_virt():
            raise RefUnpredictable('unaligned access to Device/Strongly-ordered memory')
        raise RefAbort('alignment', mva, iswrite, tohyp=ishyp)
    dacr = (s['dacr'] >> (2 * r['domain'])) & 3
    if dacr == 0:
        raise RefAbort('domain', mva, iswrite, level=r['level'], domain=r['domain'])
    if dacr == 2:
        raise RefUnpredictable('DACR field == 10')
    if dacr == 1:
        check_permission(cpu, r['ap'], mva, r['level'], r['domain'], iswrite, ispriv, 'VMSA')
    if cpu.have_virt() and not cpu.is_secure() and not ishyp and (s['hcr'] & 1):
        raise RefNotModelled('stage-2 translation')
    return r['pa']


# ------------------------------------------------------------------------------------------ fault syndrome
FS_SHORT = {('alignment', 0): 0b00001, ('alignment', 1): 0b00001, ('alignment', 2): 0b00001,
            ('translation', 1): 0b00101, ('translation', 2): 0b00111,
            ('accessflag', 1): 0b00011, ('accessflag', 2): 0b00110,
            ('domain', 1): 0b01001, ('domain', 2): 0b01011,
            ('permission', 1): 0b01101, ('permission', 2): 0b01111}
FS_PMSA = {'alignment': 0b00001, 'background': 0b00000, 'permission': 0b01101}


def abort_bookkeeping(cpu, ab):
    """DFSR / DFAR (or HSR / HDFAR when taken to Hyp mode) as DataAbort() writes them"""
    s = cpu.s
    msa = cpu.cfg['memory_system_architecture']
    tge = (s['hcr'] >> 27) & 1
    if msa == 'VMSA' and ab.kind == 'alignment' and (ab.va >> 25) == 0:
        # AlignmentFaultV reports the modified virtual address: mva = FCSETranslate(address)
        ab.va = (((s['fcseidr'] >> 25) & 0x7F) << 25) | (ab.va & 0x1FFFFFF)
    if msa == 'VMSA' and ab.kind == 'alignment' and 'tohyp' in ab.info:
        # raised by TranslateAddressV for an unaligned access to Device / Strongly-ordered memory: AlignmentFaultV is
        # called with taketohypmode = ishyp (B3.19), not with the HCR.TGE term of AlignmentFault()
        tohyp = bool(ab.info['tohyp'])
    elif msa == 'VMSA' and ab.kind == 'alignment':
        tohyp = cpu.mode == M_HYP or (cpu.have_virt() and tge == 1)
    elif msa == 'VMSA':
        tohyp = cpu.mode == M_HYP                      # stage-1 faults of the Hyp-mode regime
    else:
        tohyp = False
    if tohyp:
        s['hdfar'] = ab.va & M32
        cpu.unknown.add('hsr')
        ab.info['second_stage'] = False
        return
    s['dfar'] = ab.va & M32
    wnr = 1 if ab.iswrite else 0
    if msa == 'PMSA':
        fs = FS_PMSA[ab.kind]
        string = (wnr << 11) | ((fs >> 4) << 10) | (fs & 0xF)
    elif ab.info.get('ld') or (ab.kind == 'alignment' and cpu.cfg['have_lpae'] and (s['ttbcr'] >> 31) & 1):
        # long-descriptor DFSR format (B4.1.52): LPAE bit, STATUS<5:0>; bits 10 and 8:6 are UNKNOWN
        level = ab.info.get('level') or 0
        status = {'translation': 0b000100 | level, 'accessflag': 0b001000 | level, 'permission': 0b001100 | level,
                  'alignment': 0b100001}[ab.kind]
        s['dfsr'] = (s['dfsr'] & ~0x3FFF) | (wnr << 11) | (1 << 9) | status
        cpu.unknown_bits['dfsr'] = cpu.unknown_bits.get('dfsr', 0) | (1 << 10) | (7 << 6)
        return
    else:
        level = ab.info.get('level') or 0
        fs = FS_SHORT[(ab.kind, level)]
        string = (wnr << 11) | ((fs >> 4) << 10) | (fs & 0xF)
        domain = ab.info.get('domain')
        domain_valid = (ab.kind == 'domain' or (level == 2 and ab.kind in ('translation', 'accessflag')) or
                        (not cpu.cfg['have_lpae'] and ab.kind == 'permission'))
        if domain_valid and domain is not None:
            string |= (domain & 0xF) << 4
        else:
            cpu.unknown_bits['dfsr'] = cpu.unknown_bits.get('dfsr', 0) | 0xF0
    s['dfsr'] = (s['dfsr'] & ~0x3FFF) | string
    # bit 8 and (short format) the cache-maintenance bit are UNKNOWN / not modelled
    cpu.unknown_bits['dfsr'] = cpu.unknown_bits.get('dfsr', 0) | (1 << 8)


# ------------------------------------------------------------------------------------------ MemA / MemU
def dev_of(cpu, pa):
    for di, dev in enumerate(cpu.mems):
        if dev[0] <= pa < dev[1]:
            return di, pa - dev[0]
    return None


def mem_a_priv(cpu, address, size, privileged, wasaligned, value=None):
    iswrite = value is not None
    if address == B.Align(address, size):
        va = address
    elif cpu.arch >= 7 or cpu.sctlr(1) or cpu.sctlr(22):
        raise RefAbort('alignment', address, iswrite)
    else:
        va = B.Align(address, size)
    pa = translate(cpu, va & M32 if va <= M32 else va, privileged, iswrite, size, wasaligned)
    if iswrite:
        if cpu.bit(9):
            value = B.BigEndianReverse(value, size)
        cpu.phys_write(pa, size, value)
        return None
    for i in range(size):
        d = dev_of(cpu, pa + i)
        if d is not None:
            cpu.footprint_r.add(d)
    v = cpu.phys_read(pa, size)
    if cpu.bit(9):
        v = B.BigEndianReverse(v, size)
    return v


def mem_u_priv(cpu, address, size, privileged, value=None):
    iswrite = value is not None
    address &= M32
    if cpu.arch < 7 and not cpu.sctlr(1) and not cpu.sctlr(22):
        address = B.Align(address, size)
    if address == B.Align(address, size):
        return mem_a_priv(cpu, address, size, privileged, True, value)
    hyp = cpu.mode == M_HYP
    if cpu.have_virt() and not cpu.is_secure() and hyp and (cpu.s['hsctlr'] >> 1) & 1:
        raise RefAbort('alignment', address, iswrite)
    if not hyp and cpu.sctlr(1):
        raise RefAbort('alignment', address, iswrite)
    if iswrite:
        if cpu.bit(9):
            value = B.BigEndianReverse(value, size)
        for i in range(size):
            mem_a_priv(cpu, (address + i) & M32, 1, privileged, False, (value >> (8 * i)) & 0xFF)
        return None
    v = 0
    for i in range(size):
        v |= mem_a_priv(cpu, (address + i) & M32, 1, privileged, False) << (8 * i)
    if cpu.bit(9):
        v = B.BigEndianReverse(v, size)
    return v


def install():
    RefCPU.MemA = lambda cpu, a, n, value=None: mem_a_priv(cpu, a & M32, n, cpu.is_priv(), True, value)
    RefCPU.MemU = lambda cpu, a, n, value=None: mem_u_priv(cpu, a, n, cpu.is_priv(), value)
    RefCPU.MemU_unpriv = lambda cpu, a, n, value=None: mem_u_priv(cpu, a, n, False, value)
    RefCPU.MemA_priv = mem_a_priv
    RefCPU.MemU_priv = mem_u_priv
    RefCPU.fetch_mem = lambda cpu, a, n: fetch_mem(cpu, a, n)
    RefCPU.abort_bookkeeping = abort_bookkeeping
    RefCPU.unaligned_support = unaligned_support
    RefCPU.translate = translate


def fetch_mem(cpu, addr, size):
    pa = translate(cpu, addr, cpu.is_priv(), False, size, True)
    cpu.translations.pop()
    return cpu.phys_read(pa, size)


install()
