"""Reference processor model (core): state container built from an E1 snapshot, banked register
access, flags, PC rules, exception entry — written from the ARM ARM pseudocode (B1.3, B1.8, B1.9,
A2.3), not from the repository.  Instruction semantics live in sem_*.py and register themselves in SEM."""
from vf.ref import bits as B

M_USR, M_FIQ, M_IRQ, M_SVC, M_MON, M_ABT, M_HYP, M_UND, M_SYS = 0x10, 0x11, 0x12, 0x13, 0x16, 0x17, 0x1A, 0x1B, 0x1F
MODE_SUFFIX = {M_USR: 'usr', M_FIQ: 'fiq', M_IRQ: 'irq', M_SVC: 'svc', M_MON: 'mon', M_ABT: 'abt', M_HYP: 'hyp',
               M_UND: 'und', M_SYS: 'usr'}

SEM = {}


def sem(*keys):
    def reg(fn):
        for k in keys:
            SEM[k] = fn
        return fn
    return reg


class RefUnpredictable(Exception):
    pass


class RefUndefined(Exception):
    pass


class RefNotModelled(Exception):
    """the reference declines to judge this case (mock hooks, optional behaviour...)"""


class RefSVC(Exception):
    pass


class RefSMC(Exception):
    pass


class RefHypTrap(Exception):
    pass


class RefAbort(Exception):
    def __init__(self, kind, va, iswrite, **kw):
        self.kind = kind            # 'alignment' | 'permission' | 'background' | 'translation' | 'domain' | 'accessflag'
        self.va = va
        self.iswrite = iswrite
        self.info = kw


class RefCPU:
    def __init__(self, snap, cfg):
        self.cfg = cfg
        self.s = {}
        self.mems = []
        for k, v in snap.items():
            if k.startswith('memgeom'):
                continue
            if k.startswith('mem') and isinstance(v, (bytes, bytearray)):
                continue
            self.s[k] = v
        i = 0
        while 'mem%d' % i in snap:
            g = snap['memgeom%d' % i]
            self.mems.append([g[0], g[1], bytearray(snap['mem%d' % i])])
            i += 1
        self.unknown = set()            # register / system-register names whose value is UNKNOWN
        self.mem_unknown = set()        # (device index, offset)
        self.arch = cfg['arch_version']
        self.pc_written = False
        self.instr_addr = self.s['PC']
        self.length = 4
        self.footprint_r = set()
        self.footprint_w = set()
        self.translations = []
        self.cpsr_unknown = 0
        self.unknown_bits = {}
        self.it_frozen = False
        self.events = []

    # ------------------------------------------------------------------ configuration
    def have_sec(self):
        return bool(self.cfg['have_security_ext'])

    def have_virt(self):
        return bool(self.cfg['have_virt_ext'])

    def sysbit(self, reg, bit):
        return (self.s[reg] >> bit) & 1

    def sctlr(self, bit):
        return (self.s['sctlr'] >> bit) & 1

    # ------------------------------------------------------------------ CPSR
    def cpsr(self):
        return self.s['cpsr']

    def bit(self, n):
        return (self.s['cpsr'] >> n) & 1

    def setbit(self, n, v):
        self.s['cpsr'] = (self.s['cpsr'] & ~(1 << n)) | ((1 if v else 0) << n)

    @property
    def N(self):
        return self.bit(31)

    @property
    def Z(self):
        return self.bit(30)

    @property
    def C(self):
        return self.bit(29)

    @property
    def V(self):
        return self.bit(28)

    @property
    def T(self):
        return self.bit(5)

    @property
    def mode(self):
        return self.s['cpsr'] & 0x1F

    def set_mode(self, m):
        self.s['cpsr'] = (self.s['cpsr'] & ~0x1F) | m

    def set_nzcv(self, n=None, z=None, c=None, v=None):
        for b, x in ((31, n), (30, z), (29, c), (28, v)):
            if x is not None:
                self.setbit(b, x)

    def set_nz(self, result):
        self.setbit(31, (result >> 31) & 1)
        self.setbit(30, int(result & 0xFFFFFFFF == 0))

    def set_q(self):
        self.setbit(27, 1)

    def ge(self):
        return (self.s['cpsr'] >> 16) & 0xF

    def set_ge(self, v):
        self.s['cpsr'] = (self.s['cpsr'] & ~(0xF << 16)) | ((v & 0xF) << 16)

    def itstate(self):
        c = self.s['cpsr']
        return (((c >> 10) & 0x3F) << 2) | ((c >> 25) & 3)

    def set_itstate(self, it):
        c = self.s['cpsr'] & ~((0x3F << 10) | (3 << 25))
        self.s['cpsr'] = c | (((it >> 2) & 0x3F) << 10) | ((it & 3) << 25)

    def in_it(self):
        return (self.itstate() & 0xF) != 0

    def last_in_it(self):
        return (self.itstate() & 0xF) == 0b1000

    def it_advance(self):
        it = self.itstate()
        if (it & 0b111) == 0:
            self.set_itstate(0)
        else:
            self.set_itstate((it & 0xE0) | ((it << 1) & 0x1F))

    def iset(self):
        j, t = self.bit(24), self.bit(5)
        return {(0, 0): 'arm', (0, 1): 'thumb', (1, 0): 'jazelle', (1, 1): 'thumbee'}[(j, t)]

    def select_iset(self, name):
        self.setbit(24, 0)
        self.setbit(5, 1 if name == 'thumb' else 0)

    def is_secure(self):
        return (not self.have_sec()) or self.sysbit('scr', 0) == 0 or self.mode == M_MON

    def is_priv(self):
        return self.mode != M_USR

    def bad_mode(self, m):
        if m in (M_USR, M_FIQ, M_IRQ, M_SVC, M_ABT, M_UND, M_SYS):
            return False
        if m == M_MON:
            return not self.have_sec()
        if m == M_HYP:
            return not self.have_virt()
        return True

    def flag_unknown(self, f):
        self.cpsr_unknown |= {'N': 1 << 31, 'Z': 1 << 30, 'C': 1 << 29, 'V': 1 << 28}[f]

    def fetch_mem(self, addr, size):
        # refined by sem_mem (translation); flat physical by default
        return self.phys_read(addr, size)

    def abort_bookkeeping(self, ab):
        pass

    # ------------------------------------------------------------------ physical memory (first match wins)
    def phys_read(self, addr, size):
        out = 0
        for i in range(size):
            a = addr + i
            byte = 0
            for dev in self.mems:
                if dev[0] <= a < dev[1]:
                    byte = dev[2][a - dev[0]]
                    break
            out |= byte << (8 * i)
        return out

    def phys_write(self, addr, size, value):
        for i in range(size):
            a = addr + i
            for di, dev in enumerate(self.mems):
                if dev[0] <= a < dev[1]:
                    dev[2][a - dev[0]] = (value >> (8 * i)) & 0xFF
                    self.footprint_w.add((di, a - dev[0]))
                    break

    # ------------------------------------------------------------------ registers
    def rname(self, n, mode=None):
        mode = self.mode if mode is None else mode
        if n <= 7:
            return 'R%dusr' % n
        if n <= 12:
            return 'R%d%s' % (n, 'fiq' if mode == M_FIQ else 'usr')
        if n == 13:
            return 'SP' + MODE_SUFFIX[mode]
        if n == 14:
            suf = MODE_SUFFIX[mode]
            return 'LR' + ('usr' if suf == 'hyp' else suf)
        raise ValueError(n)

    def R(self, n):
        if n == 15:
            return (self.instr_addr + (8 if self.iset() == 'arm' else 4)) & 0xFFFFFFFF
        return self.s[self.rname(n)]

    def setR(self, n, v, mode=None):
        assert 0 <= n <= 14
        name = self.rname(n, mode)
        self.s[name] = v & 0xFFFFFFFF
        self.unknown.discard(name)

    def Rmode(self, n, mode):
        return self.s[self.rname(n, mode)]

    def set_unknown(self, n, mode=None):
        self.unknown.add(self.rname(n, mode))

    def spsr_name(self, mode=None):
        mode = self.mode if mode is None else mode
        if mode in (M_USR, M_SYS):
            raise RefUnpredictable('SPSR in User/System mode')
        return 'spsr_' + MODE_SUFFIX[mode]

    def spsr(self):
        return self.s[self.spsr_name()]

    def set_spsr(self, v):
        self.s[self.spsr_name()] = v & 0xFFFFFFFF

    # ------------------------------------------------------------------ PC writes
    def branch_to(self, addr):
        self.s['PC'] = addr & 0xFFFFFFFF
        self.pc_written = True

    def branch_write_pc(self, addr):
        if self.iset() == 'arm':
            if self.arch < 6 and (addr & 3):
                raise RefUnpredictable('BranchWritePC unaligned before ARMv6')
            self.branch_to(addr & ~3)
        else:
            self.branch_to(addr & ~1)

    def bx_write_pc(self, addr):
        if addr & 1:
            self.select_iset('thumb')
            self.branch_to(addr & ~1)
        elif (addr & 2) == 0:
            self.select_iset('arm')
            self.branch_to(addr)
        else:
            raise RefUnpredictable('BXWritePC to address<1:0> == 10')

    def alu_write_pc(self, addr):
        if self.arch >= 7 and self.iset() == 'arm':
            self.bx_write_pc(addr)
        else:
            self.branch_write_pc(addr)

    def load_write_pc(self, addr):
        if self.arch >= 5:
            self.bx_write_pc(addr)
        else:
            self.branch_write_pc(addr)

    # ------------------------------------------------------------------ condition
    def cond_holds(self, cond):
        n, z, c, v = self.N, self.Z, self.C, self.V
        base = [z == 1, c == 1, n == 1, v == 1, c == 1 and z == 0, n == v, n == v and z == 0, True][cond >> 1]
        if (cond & 1) and cond != 15:
            base = not base
        return base

    # ------------------------------------------------------------------ exception entry (B1.9)
    def exc_vector_base(self):
        if self.sctlr(13):
            return 0xFFFF0000
        if self.have_sec():
            return self.s['vbar']
        return 0

    def _enter_common(self, mode, new_spsr, new_lr, set_a=None, set_f=None):
        if self.mode == M_MON and self.have_sec():
            self.s['scr'] &= ~1
        self.set_mode(mode)
        self.set_spsr(new_spsr)
        self.setR(14, new_lr)
        self.setbit(7, 1)
        if set_f:
            self.setbit(6, 1)
        if set_a:
            self.setbit(8, 1)
        self.set_itstate(0)
        self.setbit(24, 0)
        self.setbit(5, self.sctlr(30))
        self.setbit(9, self.sctlr(25))

    def enter_hyp(self, new_spsr, preferred, vect_offset):
        self.set_mode(M_HYP)
        self.set_spsr(new_spsr)
        self.s['elr_hyp'] = preferred & 0xFFFFFFFF
        self.setbit(24, 0)
        self.setbit(5, (self.s['hsctlr'] >> 30) & 1)
        self.setbit(9, (self.s['hsctlr'] >> 25) & 1)
        scr = self.s['scr']
        if not (scr >> 3) & 1:
            self.setbit(8, 1)
        if not (scr >> 2) & 1:
            self.setbit(6, 1)
        if not (scr >> 1) & 1:
            self.setbit(7, 1)
        self.set_itstate(0)
        self.branch_to(self.s['hvbar'] + vect_offset)

    def enter_monitor(self, new_spsr, new_lr, vect_offset):
        self.set_mode(M_MON)
        self.set_spsr(new_spsr)
        self.setR(14, new_lr)
        self.setbit(24, 0)
        self.setbit(5, self.sctlr(30))
        self.setbit(9, self.sctlr(25))
        self.setbit(8, 1)
        self.setbit(6, 1)
        self.setbit(7, 1)
        self.set_itstate(0)
        self.branch_to(self.s['mvbar'] + vect_offset)

    def _hyp_routing(self):
        ns = self.have_sec() and self.sysbit('scr', 0) == 1
        take_to_hyp = self.have_virt() and self.have_sec() and ns and self.mode == M_HYP
        tge = (self.s['hcr'] >> 27) & 1
        route_to_hyp = (self.have_virt() and self.have_sec() and not self.is_secure() and tge == 1 and self.mode == M_USR)
        return take_to_hyp, route_to_hyp

    def take_undef(self):
        pc = self.R(15)
        new_lr = (pc - 2 if self.T else pc - 4) & 0xFFFFFFFF
        new_spsr = self.cpsr()
        take_to_hyp, route_to_hyp = self._hyp_routing()
        preferred = (new_lr - (2 if self.T else 4)) & 0xFFFFFFFF
        if take_to_hyp:
            self.unknown.add('hsr')
            self.enter_hyp(new_spsr, preferred, 4)
        elif route_to_hyp:
            self.unknown.add('hsr')
            self.enter_hyp(new_spsr, preferred, 20)
        else:
            self._enter_common(M_UND, new_spsr, new_lr)
            self.branch_to(self.exc_vector_base() + 4)
        self.events.append('undef')

    def _svc_syndrome(self, imm16, cond):
        """CallSupervisor(): HSRString = Zeros(25), <15:0> = the immediate if CurrentCond() is AL else UNKNOWN; exception class
        0x11 copies the string into HSR<24:0>.  HSR.IL (bit 25) is left out of the comparison.  Without an instruction (the
        entry procedure called directly) nothing is known about HSR."""
        if imm16 is None:
            self.unknown.add('hsr')
            return
        self.s['hsr'] = (0b010001 << 26) | (imm16 & 0xFFFF)
        self.unknown_bits['hsr'] = self.unknown_bits.get('hsr', 0) | (1 << 25) | (0 if cond == 14 else 0xFFFF)

    def take_svc(self, imm16=None, cond=14):
        take_to_hyp, route_to_hyp = self._hyp_routing()
        if take_to_hyp or route_to_hyp:
            self._svc_syndrome(imm16, cond)
        self.it_advance()
        pc = self.R(15)
        new_lr = (pc - 2 if self.T else pc - 4) & 0xFFFFFFFF
        new_spsr = self.cpsr()
        if take_to_hyp:
            self.enter_hyp(new_spsr, new_lr, 8)
        elif route_to_hyp:
            self.enter_hyp(new_spsr, new_lr, 20)
        else:
            self._enter_common(M_SVC, new_spsr, new_lr)
            self.branch_to(self.exc_vector_base() + 8)
        self.events.append('svc')

    def take_smc(self):
        self.it_advance()
        pc = self.R(15)
        new_lr = pc if self.T else (pc - 4) & 0xFFFFFFFF
        new_spsr = self.cpsr()
        if self.mode == M_MON:
            self.s['scr'] &= ~1
        self.enter_monitor(new_spsr, new_lr, 8)
        self.events.append('smc')

    def take_data_abort(self, ab):
        pc = self.R(15)
        new_lr = (pc + 4 if self.T else pc) & 0xFFFFFFFF
        new_spsr = self.cpsr()
        preferred = (new_lr - 8) & 0xFFFFFFFF
        ns = self.have_sec() and self.sysbit('scr', 0) == 1
        take_to_hyp = self.have_virt() and self.have_sec() and ns and self.mode == M_HYP
        tge = (self.s['hcr'] >> 27) & 1
        route_to_hyp = (self.have_virt() and self.have_sec() and not self.is_secure() and
                        (ab.info.get('second_stage') or
                         (self.mode == M_USR and tge == 1 and ab.kind == 'alignment')))
        if take_to_hyp:
            self.enter_hyp(new_spsr, preferred, 16)
        elif route_to_hyp:
            self.enter_hyp(new_spsr, preferred, 20)
        else:
            aw = (self.s['scr'] >> 5) & 1
            # SCR.NS is cleared first when the exception is taken from Monitor mode (B1.9.8): the mask test reads NS after that
            ns_after = 0 if self.mode == M_MON else self.sysbit('scr', 0)
            set_a = (not self.have_sec()) or self.have_virt() or ns_after == 0 or aw == 1
            self._enter_common(M_ABT, new_spsr, new_lr, set_a=set_a)
            self.branch_to(self.exc_vector_base() + 16)
        self.events.append('dabort')

    def _take_interrupt(self, fiq):
        pc = self.R(15)
        new_lr = pc if self.T else (pc - 4) & 0xFFFFFFFF
        new_spsr = self.cpsr()
        vect_offset = 28 if fiq else 24
        scr = self.s['scr']
        hcr = self.s['hcr']
        scr_bit = (scr >> (2 if fiq else 1)) & 1
        hcr_bit = (hcr >> (3 if fiq else 4)) & 1
        route_to_monitor = self.have_sec() and scr_bit == 1
        route_to_hyp = ((self.have_virt() and self.have_sec() and scr_bit == 0 and hcr_bit == 1 and not self.is_secure())
                        or self.mode == M_HYP)
        if route_to_monitor:
            if self.mode == M_MON:
                self.s['scr'] &= ~1
            self.enter_monitor(new_spsr, new_lr, vect_offset)
        elif route_to_hyp:
            self.unknown.add('hsr')
            self.enter_hyp(new_spsr, (new_lr - 4) & 0xFFFFFFFF, vect_offset)
        else:
            # SCR.NS is cleared first when the interrupt is taken from Monitor mode (B1.9.10 / B1.9.12)
            nonsec_masked = self.have_sec() and not self.have_virt() and (scr & 1) == 1 and self.mode != M_MON
            set_a = (not nonsec_masked) or (scr >> 5) & 1 == 1
            set_f = fiq and ((not nonsec_masked) or (scr >> 4) & 1 == 1)
            self._enter_common(M_FIQ if fiq else M_IRQ, new_spsr, new_lr, set_a=set_a, set_f=set_f)
            if self.sctlr(24):
                self.branch_to(self.cfg['impdef_fiq_vector' if fiq else 'impdef_irq_vector'])
            else:
                self.branch_to(self.exc_vector_base() + vect_offset)
        self.events.append('fiq' if fiq else 'irq')

    def take_irq(self):
        self._take_interrupt(False)

    def take_fiq(self):
        self._take_interrupt(True)

    def take_hyp_trap(self):
        pc = self.R(15)
        preferred = (pc - 4 if self.T else pc - 8) & 0xFFFFFFFF
        self.enter_hyp(self.cpsr(), preferred, 20)
        self.events.append('hyptrap')

    # ------------------------------------------------------------------ CPSRWriteByInstr / SPSRWriteByInstr (B1.3.3)
    def cpsr_write_by_instr(self, value, bytemask, is_excp_return):
        privileged = self.is_priv()
        nmfi = self.sctlr(27)
        c = self.s['cpsr']

        def put(hi, lo):
            nonlocal c
            m = ((1 << (hi - lo + 1)) - 1) << lo
            c = (c & ~m) | (value & m)
        if bytemask & 8:
            put(31, 27)
            if is_excp_return:
                put(26, 24)
        if bytemask & 4:
            put(19, 16)
        if bytemask & 2:
            if is_excp_return:
                put(15, 10)
            put(9, 9)
            if privileged and (self.is_secure() or (self.s['scr'] >> 5) & 1 or self.have_virt()):
                put(8, 8)
        if bytemask & 1:
            if privileged:
                put(7, 7)
            if (privileged and (not nmfi or not (value >> 6) & 1) and
                    (self.is_secure() or (self.s['scr'] >> 4) & 1 or self.have_virt())):
                put(6, 6)
            if is_excp_return:
                put(5, 5)
            if privileged:
                vm = value & 0x1F
                if self.bad_mode(vm):
                    raise RefUnpredictable('CPSR write of a bad mode')
                if not self.is_secure() and vm == M_MON:
                    raise RefUnpredictable('Monitor mode from Non-secure')
                if not self.is_secure() and vm == M_FIQ and (self.s['nsacr'] >> 19) & 1:
                    raise RefUnpredictable('FIQ mode reserved by NSACR.RFR')
                if self.have_sec() and self.sysbit('scr', 0) == 0 and vm == M_HYP:
                    raise RefUnpredictable('Hyp mode from Secure')
                if not self.is_secure() and self.mode != M_HYP and vm == M_HYP:
                    raise RefUnpredictable('into Hyp mode by CPSR write')
                if self.mode == M_HYP and vm != M_HYP and not is_excp_return:
                    raise RefUnpredictable('out of Hyp mode by CPSR write')
                c = (c & ~0x1F) | vm
        self.s['cpsr'] = c & 0xFFFFFFFF
        # illegal return states
        if is_excp_return:
            j, t = (c >> 24) & 1, (c >> 5) & 1
            if j:
                raise RefUnpredictable('return to Jazelle/ThumbEE state (not implemented in any configuration)')
            if not t and (((c >> 10) & 0x3F) or ((c >> 25) & 3)):
                raise RefUnpredictable('return to ARM state with IT bits set')

    def spsr_write_by_instr(self, value, bytemask):
        if self.mode in (M_USR, M_SYS):
            raise RefUnpredictable('SPSR write in User/System mode')
        sp = self.spsr()

        def put(hi, lo):
            nonlocal sp
            m = ((1 << (hi - lo + 1)) - 1) << lo
            sp = (sp & ~m) | (value & m)
        if bytemask & 8:
            put(31, 24)
        if bytemask & 4:
            put(19, 16)
        if bytemask & 2:
            put(15, 8)
        if bytemask & 1:
            put(7, 5)
            if self.bad_mode(value & 0x1F):
                raise RefUnpredictable('SPSR write of a bad mode')
            put(4, 0)
        self.set_spsr(sp)
