"""One reference step on a RefCPU built from an E1 snapshot, and the location-by-location comparator."""
from vf.ref import model as Mdl
from vf.ref.model import RefCPU, SEM, RefUnpredictable, RefUndefined, RefNotModelled, RefSVC, RefSMC, RefAbort, RefHypTrap
from vf.ref import spec as S
from vf.ref import sem_dp        # noqa: F401  (registers semantics)
try:
    from vf.ref import sem_mem   # noqa: F401
    from vf.ref import sem_sys   # noqa: F401
except ImportError:
    pass

_tables = {}


def tables():
    if not _tables:
        from vf.ref.spec_arm import ARM
        from vf.ref.spec_t16 import T16
        from vf.ref.spec_t32 import T32
        _tables.update(arm=ARM, t16=T16, t32=T32)
    return _tables


def fetch(cpu):
    """little-endian instruction fetch; returns (kind, word)"""
    pc = cpu.s['PC']
    if cpu.iset() == 'arm':
        return 'arm', cpu.fetch_mem(pc, 4)
    hw1 = cpu.fetch_mem(pc, 2)
    if (hw1 >> 11) in (0b11101, 0b11110, 0b11111):
        return 't32', (hw1 << 16) | cpu.fetch_mem((pc + 2) & 0xFFFFFFFF, 2)
    return 't16', hw1


def current_cond(cpu, kind, word, row):
    if kind == 'arm':
        return word >> 28
    if row is not None and row.sem == 'b_cond':
        return (word >> 8) & 0xF if kind == 't16' else (word >> 22) & 0xF
    it = cpu.itstate()
    if it & 0xF:
        return it >> 4
    if it == 0:
        return 14
    raise RefUnpredictable('ITSTATE<3:0> == 0 with ITSTATE<7:4> != 0')


def step(snap, cfg, forced=None, deviation=None, force_cond=False):
    """Returns (verdict, cpu, info).  verdict: 'ok' | 'unpredictable' | 'not-modelled' | 'optional'.
    forced = (kind, word): trust-fetch mode (the word the real fetch returned)."""
    cpu = RefCPU(snap, cfg)
    info = {}
    if cpu.iset() not in ('arm', 'thumb'):
        return 'unpredictable', cpu, dict(why='Jazelle/ThumbEE state')
    try:
        kind, word = forced if forced is not None else fetch(cpu)
    except RefAbort as ab:
        return 'not-modelled', cpu, dict(why='instruction fetch aborts (prefetch abort is not modelled by the emulator)')
    except RefUnpredictable as ex:
        return 'unpredictable', cpu, dict(why='instruction fetch: %s' % ex)
    except RefNotModelled as ex:
        return 'not-modelled', cpu, dict(why='instruction fetch: %s' % ex)
    cpu.length = 2 if kind == 't16' else 4
    ctx = S.Ctx(C=cpu.C, in_it=cpu.in_it(), last_it=cpu.last_in_it(), arch=cpu.arch, iset='arm' if kind == 'arm' else 'thumb')
    rk, row, ops = tables()[kind].decode(word, ctx)
    info.update(kind=kind, word=word, row=row.name if row else None, rk=rk, ops=ops)
    if kind != 'arm' and cpu.in_it() and (cpu.itstate() >> 4) == 15:
        return 'unpredictable', cpu, info
    if rk == 'UNPREDICTABLE':
        return 'unpredictable', cpu, info
    if rk in ('OPTIONAL', 'UNALLOC_HINT'):
        return 'optional', cpu, info
    try:
        if rk == 'UNDEFINED':
            # an UNDEFINED instruction whose condition fails may be a NOP or take the exception (IMPLEMENTATION DEFINED)
            cond = current_cond(cpu, kind, word, None)
            if not cpu.cond_holds(cond):
                info['undefined_failed_cond'] = True
            raise RefUndefined()
        fn = SEM.get(row.sem.split(':')[0]) if row.sem else None
        if deviation is not None and row.name in deviation.rows:
            ops = deviation.ops(row, ops)
            fn = deviation.sem.get(row.sem.split(':')[0], fn)
        if fn is None:
            return 'not-modelled', cpu, info
        cond = current_cond(cpu, kind, word, row)
        info['cond_passed'] = passed = cpu.cond_holds(cond) or row.sem in UNCONDITIONAL or force_cond
        if passed:
            fn(cpu, ops, row)
        if not cpu.pc_written:
            cpu.s['PC'] = (cpu.instr_addr + cpu.length) & 0xFFFFFFFF
        if kind != 'arm' and (snap['cpsr'] >> 10 & 0x3F or snap['cpsr'] >> 25 & 3) and row.sem != 'it' and not info.get('no_it_advance'):
            if not cpu.it_frozen:
                cpu.it_advance()
    except RefUndefined as ex:
        if ex.args:
            # raised by the instruction's own operation (integer divide-by-zero trap), i.e. inside "if ConditionPassed()":
            # the latitude for UNDEFINED encodings that fail their condition does not apply to it
            info['undef_from_execution'] = True
        cpu.take_undef()
    except RefSVC as ex:
        cpu.take_svc(ex.args[0] if ex.args else None, current_cond(cpu, kind, word, row))
    except RefSMC:
        cpu.take_smc()
    except RefHypTrap:
        cpu.take_hyp_trap()
    except RefAbort as ab:
        cpu.abort_bookkeeping(ab)
        cpu.take_data_abort(ab)
        info['abort'] = ab.kind
    except RefUnpredictable as ex:
        info['why'] = str(ex)
        return 'unpredictable', cpu, info
    except RefNotModelled as ex:
        info['why'] = str(ex)
        return 'not-modelled', cpu, info
    return 'ok', cpu, info


UNCONDITIONAL = {'bkpt', 'cps', 'setend', 'it'}


def compare(cpu, post, ignore=()):
    """differences between the reference post-state and a real E1 post-snapshot: list of (location, expected, got)"""
    diffs = []
    for k, exp in cpu.s.items():
        if k in ignore or k in cpu.unknown:
            continue
        got = post.get(k)
        if k == 'cpsr' and cpu.cpsr_unknown:
            if (exp & ~cpu.cpsr_unknown) != (got & ~cpu.cpsr_unknown):
                diffs.append((k, exp, got))
            continue
        if k in cpu.unknown_bits and isinstance(exp, int) and isinstance(got, int):
            if (exp ^ got) & ~cpu.unknown_bits[k]:
                diffs.append((k, exp, got))
            continue
        if got != exp:
            diffs.append((k, exp, got))
    for i, dev in enumerate(cpu.mems):
        real = post['mem%d' % i]
        if bytes(dev[2]) != real:
            for off in range(len(real)):
                if dev[2][off] != real[off] and (i, off) not in cpu.mem_unknown:
                    diffs.append(('mem%d+%#x' % (i, off), dev[2][off], real[off]))
                    break
    return diffs
