"""Shared plumbing: where the repository is, offline dependency install, seeds,
stdout swallowing (the emulator prints 'unpredictable'), scratch space."""
import os
import sys
import random
import subprocess
import shutil
import atexit
import hashlib

VERIF = os.path.dirname(os.path.dirname(os.path.abspath(__file__)))
REPO = os.environ.get('ARMULATOR_REPO', '/repo')
DEPS = os.path.join(VERIF, '.deps')
WORK = os.path.join(VERIF, '.work')
# runs against a scratch copy of the repository (tools/seedcheck.py, tools/mutant.py) write their evidence elsewhere
EVIDENCE = os.environ.get('VERIF_EVIDENCE_DIR') or os.path.join(VERIF, 'evidence')
REPLAY = os.path.join(EVIDENCE, 'replay')
WHEELS = '/opt/veriftools/wheels'
PY = '/venv/bin/python'
GUARD = 'ARMULATOR_VERIF'


def use_repo():
    """Make `import armulator` resolve to REPO's current working tree."""
    if REPO not in sys.path[:1]:
        sys.path.insert(0, REPO)
    os.environ.setdefault(GUARD, '1')


def ensure_deps(quiet=True):
    """icontract / deal beside the repository's interpreter, from the offline wheelhouse."""
    marker = os.path.join(DEPS, 'icontract')
    if not os.path.isdir(marker):
        os.makedirs(DEPS, exist_ok=True)
        cmd = [PY, '-m', 'pip', 'install', '--no-index', '--find-links', WHEELS,
               '--target', DEPS, '--quiet', 'icontract', 'deal']
        subprocess.run(cmd, check=True, stdout=subprocess.DEVNULL if quiet else None,
                       stderr=subprocess.DEVNULL if quiet else None)
    if DEPS not in sys.path:
        sys.path.append(DEPS)


def seed_from_env():
    try:
        return int(os.environ.get('VERIF_SEED', '0'))
    except ValueError:
        return 0


def rng_for(*parts):
    h = hashlib.sha256(repr(parts).encode()).digest()
    return random.Random(int.from_bytes(h[:8], 'little'))


_workdir = None


def workdir():
    global _workdir
    if _workdir is None:
        _workdir = os.path.join(WORK, str(os.getpid()))
        os.makedirs(_workdir, exist_ok=True)
        atexit.register(shutil.rmtree, _workdir, True)
    return _workdir


class UnpredCounter:
    """Replacement for sys.stdout inside workers: swallows the emulator's prints and
    counts how often it announced 'unpredictable' (supplementary information only)."""

    def __init__(self):
        self.n = 0

    def write(self, s):
        if 'unpredictable' in s:
            self.n += 1
        return len(s)

    def flush(self):
        pass


UNPRED = UnpredCounter()


def swallow_stdout():
    sys.stdout = UNPRED


def exc_signature(e):
    """(type, file, function) of the innermost frame inside the repository — never str(e):
    str(UndefinedInstructionException()) itself raises."""
    tb = e.__traceback__
    last = None
    while tb is not None:
        fn = tb.tb_frame.f_code.co_filename
        if 'armulator' in fn:
            last = (os.path.relpath(fn, REPO) if fn.startswith(REPO) else fn, tb.tb_frame.f_code.co_name, tb.tb_lineno)
        tb = tb.tb_next
    if last is None:
        last = ('?', '?', 0)
    return (type(e).__name__, last[0], last[1], last[2])
