"""E1 — state observer: generic architectural snapshot / diff / restore of a real ArmV6."""
from vf.common import use_repo
use_repo()

SCRATCH = ('changed_registers',)


SKIPPED = set()          # attributes of the register file that are not data (tables of callables, helper objects)


def _is_reg(v):
    return hasattr(v, 'value') and hasattr(v, 'length')


def _plain(v):
    return v is None or isinstance(v, (int, str, bytes))


def _val(v):
    if _is_reg(v):
        return v.value
    return v


def _entries(r):
    """(kind, attribute name, object) for every data attribute of the register file.  Anything that is neither a number, a
    register object, a list of those, nor a dict of numbers (dispatch tables, closures, helper objects a refactoring may add)
    is not state and is left alone - its name is kept in SKIPPED for the evidence."""
    for k, v in vars(r).items():
        if k in SCRATCH:
            continue
        if isinstance(v, dict):
            if all(_plain(x) for x in v.values()):
                yield 'dict', k, v
            else:
                SKIPPED.add(k)
        elif isinstance(v, list):
            if all(_plain(x) or _is_reg(x) for x in v):
                yield 'list', k, v
            else:
                SKIPPED.add(k)
        elif _plain(v) or _is_reg(v):
            yield 'scalar', k, v
        else:
            SKIPPED.add(k)


def _dkey(k, kk):
    return kk.name if hasattr(kk, 'name') else '%s[%r]' % (k, kk)


def snapshot(cpu, mem=True):
    """Flat dict name -> int | tuple | bytes. Enumerates *every* data attribute of cpu.registers
    generically so that a newly added register is picked up automatically."""
    r = cpu.registers
    d = {}
    for kind, k, v in _entries(r):
        if kind == 'dict':
            for kk, vv in v.items():
                d[_dkey(k, kk)] = vv
        elif kind == 'list':
            d[k] = tuple(_val(x) for x in v)
        else:
            d[k] = _val(v)
    d['wfe'] = cpu.is_wait_for_event
    d['wfi'] = cpu.is_wait_for_interrupt
    if mem:
        for i, m in enumerate(cpu.mem.memories):
            arr = getattr(m.mem, 'memory_array', None)
            d['mem%d' % i] = bytes(arr) if arr is not None else b''
            d['memgeom%d' % i] = (m.beginning, m.end, getattr(m.mem, 'size', None))
    return d


def scratch(cpu):
    return dict(opcode=cpu.opcode, opcode_len=cpu.opcode_len,
                executed=type(cpu.executed_opcode).__name__,
                changed=tuple(cpu.registers.changed_registers))


def diff(a, b):
    """Set of location names whose value differs (memory at device granularity)."""
    ks = set(a) | set(b)
    return {k for k in ks if a.get(k, None) != b.get(k, None)}


def mem_diff_bytes(a, b, key):
    x, y = a[key], b[key]
    if len(x) != len(y):
        return None
    return [i for i in range(len(x)) if x[i] != y[i]]


def restore(cpu, snap):
    """Write an architectural snapshot into a (possibly differently aged) CPU."""
    r = cpu.registers
    for kind, k, v in list(_entries(r)):
        if kind == 'dict':
            for kk in v:
                v[kk] = snap[_dkey(k, kk)]
        elif kind == 'list':
            sv = snap[k]
            for i, x in enumerate(v):
                if _is_reg(x):
                    x.value = sv[i]
                else:
                    v[i] = sv[i]
        elif _is_reg(v):
            v.value = snap[k]
        else:
            setattr(r, k, snap[k])
    cpu.is_wait_for_event = snap['wfe']
    cpu.is_wait_for_interrupt = snap['wfi']
    for i, m in enumerate(cpu.mem.memories):
        key = 'mem%d' % i
        if key in snap and hasattr(m.mem, 'memory_array'):
            m.mem.memory_array[:] = snap[key]


def jsonable(snap, mem=False):
    out = {}
    for k, v in snap.items():
        if isinstance(v, bytes):
            if mem:
                out[k] = v.hex()
        elif isinstance(v, tuple):
            out[k] = list(v)
        elif isinstance(v, bool) or v is None:
            out[k] = v
        elif isinstance(v, int):
            out[k] = v if -2**63 < v < 2**63 else str(v)
        else:
            out[k] = repr(v)
    return out


def unjson(js):
    """inverse of jsonable(snap, mem=True): a snapshot that restore() accepts"""
    out = {}
    for k, v in js.items():
        if k.startswith('mem') and not k.startswith('memgeom') and isinstance(v, str):
            out[k] = bytes.fromhex(v)
        elif isinstance(v, str):
            try:
                out[k] = int(v)
            except ValueError:
                out[k] = v
        elif isinstance(v, list):
            out[k] = tuple(v)
        else:
            out[k] = v
    return out


GPR_NAMES = None


def all_int_locations(snap):
    """(name, value) for every location that the architecture defines as a 32-bit quantity
    subject to C10's range invariant: the 33 banked core registers + PC, the SPSRs, ELR_hyp."""
    global GPR_NAMES
    if GPR_NAMES is None:
        from armulator.armv6.registers import RName
        GPR_NAMES = [n.name for n in RName]
    names = GPR_NAMES + ['spsr_hyp', 'spsr_svc', 'spsr_abt', 'spsr_und', 'spsr_mon', 'spsr_irq', 'spsr_fiq',
                         'elr_hyp', 'cpsr']
    return [(n, snap[n]) for n in names if n in snap]
