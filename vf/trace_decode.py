"""E6 — bit-provenance tracer of the REAL decoders and complete path enumeration.

The decoder modules reach the instruction word only through substring / bit_at / chain.  While
installed, those names return objects that remember which instruction bits they hold; every
*comparison* appends a predicate (mask, value, outcome) to PATH.  A DFS that negates one predicate
at a time, with a complete recursive-splitting solver for masked (dis)equalities, enumerates every
feasible path of the real code; model counting proves the path sets partition the word space."""
import importlib
import pkgutil
import sys

from vf.common import use_repo
use_repo()

PATH = []
OPAQUE = [0]


class T:
    """bit-selection of the instruction word: src[i] = source bit index of result bit i"""
    __slots__ = ('w', 'src')

    def __init__(self, w, src):
        self.w = w
        self.src = src

    def val(self):
        v = 0
        for i, s in enumerate(self.src):
            if (self.w >> s) & 1:
                v |= 1 << i
        return v

    def _pred(self, c):
        if isinstance(c, T):
            OPAQUE[0] += 1
            c = c.val()
        c = int(c)
        if c < 0 or c >> len(self.src):
            return None
        m = 0
        v = 0
        for i, s in enumerate(self.src):
            m |= 1 << s
            if (c >> i) & 1:
                v |= 1 << s
        return m, v

    def __eq__(self, c):
        p = self._pred(c)
        if p is None:
            return False
        r = (self.w & p[0]) == p[1]
        PATH.append((p[0], p[1], r))
        return r

    def __ne__(self, c):
        return not self.__eq__(c)

    def __bool__(self):
        return not self.__eq__(0)

    def __hash__(self):
        raise TypeError('opaque use (hash) of traced instruction bits')

    def __index__(self):
        raise TypeError('opaque use (index) of traced instruction bits')

    def __int__(self):
        raise TypeError('opaque use (int) of traced instruction bits')


def t_substring(bits, msb, lsb):
    if isinstance(bits, T):
        return T(bits.w, bits.src[lsb:msb + 1])
    return T(bits, list(range(lsb, msb + 1)))


def t_bit_at(bits, i):
    return t_substring(bits, i, i)


def t_chain(h, l, n):
    if not (isinstance(h, T) and isinstance(l, T) and len(l.src) == n):
        raise TypeError('opaque use (chain with constant) of traced instruction bits')
    return T(h.w, l.src + h.src)


_saved = {}


def _decoder_modules():
    import armulator.armv6.opcodes.decoders as D
    for m in pkgutil.iter_modules(D.__path__):
        yield importlib.import_module('armulator.armv6.opcodes.decoders.' + m.name)


def install():
    if _saved:
        return
    for mod in _decoder_modules():
        for name, repl in (('substring', t_substring), ('bit_at', t_bit_at), ('chain', t_chain)):
            if hasattr(mod, name):
                _saved[(mod.__name__, name)] = getattr(mod, name)
                setattr(mod, name, repl)


def uninstall():
    for (mn, name), f in _saved.items():
        setattr(sys.modules[mn], name, f)
    _saved.clear()


def decoders():
    from armulator.armv6.opcodes.decoders import arm_instruction_set, thumb_instruction_set_encoding_32_bit, \
        thumb_instruction_set_encoding_16_bit
    t32 = thumb_instruction_set_encoding_32_bit.decode_instruction
    t16 = thumb_instruction_set_encoding_16_bit.decode_instruction

    def dec32(w):
        # fetch precondition: first halfword bits [15:11] in {11101, 11110, 11111}
        a = (w & 0xE0000000) == 0xE0000000
        PATH.append((0xE0000000, 0xE0000000, a))
        b = (w & 0x18000000) == 0
        PATH.append((0x18000000, 0, b))
        if not a or b:
            return '#not-a-32-bit-thumb-word'
        return t32(w)

    def dec16(w):
        a = (w & 0xE000) == 0xE000
        PATH.append((0xE000, 0xE000, a))
        if a:
            b = (w & 0x1800) == 0
            PATH.append((0x1800, 0, b))
            if not b:
                return '#first-half-of-32-bit'
        return t16(w)
    return {'arm': (arm_instruction_set.decode_instruction, 32), 't32': (dec32, 32), 't16': (dec16, 16)}


def run(dec, w):
    """Run the (traced) decoder on w; outcome = class name | 'None' | 'EXC:<type>' | '#...'."""
    del PATH[:]
    try:
        r = dec(w)
        if r is None:
            out = 'None'
        elif isinstance(r, str):
            out = r
        else:
            out = r.__name__
    except NotImplementedError:
        out = 'EXC:NotImplementedError'
    except Exception as e:          # includes UndefinedInstructionException and host errors
        out = 'EXC:' + type(e).__name__
    return out, list(PATH)


def _simplify(m, v, diseqs):
    out = []
    for dm, dv in diseqs:
        common = dm & m
        if (v & common) != (dv & common):
            continue
        if common == dm:
            return None
        out.append((dm, dv))
    return out


def solve_c(m, v, diseqs, nbits, rng=None):
    ds = _simplify(m, v, diseqs)
    if ds is None:
        return None
    if not ds:
        fill = rng.getrandbits(nbits) if rng else 0
        return (fill & ~m & ((1 << nbits) - 1)) | v
    dm, dv = ds[0]
    free = dm & ~m
    b = free & -free
    order = ((dv & b) ^ b, dv & b)
    for bitval in order:
        r = solve_c(m | b, v | bitval, ds, nbits, rng)
        if r is not None:
            return r
    return None


def sample(m, v, ds, nbits, rng, tries=30):
    """A random member of the path set (rejection on the disequalities, falling back to the solver)."""
    full = (1 << nbits) - 1
    for _ in range(tries):
        w = (rng.getrandbits(nbits) & ~m & full) | v
        if all((w & dm) != dv for dm, dv in ds):
            return w
    return solve_c(m, v, ds, nbits, rng)


def count_c(m, v, diseqs, nbits, memo):
    ds = _simplify(m, v, diseqs)
    if ds is None:
        return 0
    if not ds:
        return 1 << (nbits - bin(m).count('1'))
    key = (m, v, tuple(ds))
    if key in memo:
        return memo[key]
    dm, dv = ds[0]
    free = dm & ~m
    b = free & -free
    r = count_c(m | b, v, ds, nbits, memo) + count_c(m | b, v | b, ds, nbits, memo)
    memo[key] = r
    return r


def split(preds):
    m = 0
    v = 0
    ds = []
    for pm, pv, o in preds:
        if o:
            if (m & pm) and ((v & (m & pm)) != (pv & (m & pm))):
                return None
            m |= pm
            v |= pv
        else:
            ds.append((pm, pv))
    return m, v, ds


def enumerate_paths(dec, nbits, rng, cap=200000):
    """Returns (leaves, runs, infeasible, complete).  leaves: list of (path, outcome, witness)."""
    leaves = []
    infeasible = 0
    runs = 0
    work = [[]]
    while work:
        if runs >= cap:
            return leaves, runs, infeasible, False
        prefix = work.pop()
        s = split(prefix)
        w = None if s is None else solve_c(s[0], s[1], s[2], nbits, rng)
        if w is None:
            infeasible += 1
            continue
        out, path = run(dec, w)
        runs += 1
        if path[:len(prefix)] != prefix:
            raise AssertionError('decoder is not a function of the traced predicates')
        leaves.append((tuple(path), out, w))
        for i in range(len(prefix), len(path)):
            pm, pv, o = path[i]
            work.append(path[:i] + [(pm, pv, not o)])
    return leaves, runs, infeasible, True


def all_paths(rng):
    """{'arm': [(m, v, ds, outcome, witness)...], ...} + completeness info; tracer installed only inside."""
    import sys as _s
    _s.setrecursionlimit(max(_s.getrecursionlimit(), 20000))
    install()
    try:
        out = {}
        info = {}
        for name, (dec, nb) in decoders().items():
            leaves, runs, inf, complete = enumerate_paths(dec, nb, rng)
            memo = {}
            total = 0
            cubes = []
            for p, o, w in leaves:
                m, v, ds = split(list(p))
                total += count_c(m, v, ds, nb, memo)
                cubes.append((m, v, ds, o, w))
            out[name] = cubes
            info[name] = dict(paths=len(leaves), runs=runs, infeasible_prefixes=inf, complete=complete,
                              model_count=total, partition_ok=(total == 1 << nb), opaque=OPAQUE[0])
        return out, info
    finally:
        uninstall()
