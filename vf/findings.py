"""Known findings: committed list, keyed by mechanism (cluster-key pattern), never written at run time."""
import json
import os
import re
from vf import common

PATH = os.path.join(common.VERIF, 'known_findings.json')


def load():
    if not os.path.exists(PATH):
        return []
    with open(PATH) as f:
        data = json.load(f)
    return [e for e in data.get('findings', []) if e.get('status') == 'known']


def match(known, pid, violation):
    """A violation cluster is booked under a finding only when the finding lists this property and
    its key pattern matches the cluster's mechanism key completely."""
    for e in known:
        if pid not in e.get('properties', ()):
            continue
        for pat in e.get('key_patterns', ()):
            if re.fullmatch(pat, violation['key']):
                return e
    return None
