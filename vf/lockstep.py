"""E4 — the lock-step differential monitor: real emulate_cycle() vs one reference step from the same E1
snapshot, compared location by location; plus word generation from reference-table rows."""
import random
from vf.common import use_repo
use_repo()
from vf import observe, scen, machine as M          # noqa: E402
from vf.ref import step as RS                        # noqa: E402

REG_POOL = [0, 1, 2, 3, 7, 8, 12, 13, 14, 15]


def gen_word(table, row, rng, cond=None, tries=60, fixed=None):
    """a word of `row` (pattern bits fixed, fields random with register/corner bias, should-be bits honoured);
    fixed = {field letter: value} pins fields"""
    for _ in range(tries):
        w = row.value | row.sb_value
        for ch, bits_ in row.fields.items():
            k = len(bits_)
            if fixed is not None and ch in fixed:
                v = fixed[ch]
            elif ch == 'c' and row.has_cond:
                v = (cond if cond is not None else (14 if rng.random() < 0.6 else rng.randrange(15)))
            elif k == 4 and ch in 'ndmstauhl':
                v = rng.choice(REG_POOL) if rng.random() < 0.7 else rng.randrange(16)
            elif k == 3 and ch in 'ndmt':
                v = rng.randrange(8)
            elif ch == 'r' and k >= 8 and rng.random() < 0.35:
                v = reglist(rng, k)
            else:
                r = rng.random()
                v = 0 if r < 0.15 else ((1 << k) - 1 if r < 0.3 else (1 if r < 0.4 else (1 << (k - 1) if r < 0.5 else (
                    rng.choice((2, 3, 4, 8, 12)) & ((1 << k) - 1) if r < 0.58 and k >= 3 else rng.getrandbits(k)))))
            for i, b in enumerate(bits_):
                if (v >> (k - 1 - i)) & 1:
                    w |= 1 << b
        # don't-care bits random
        free = ~(row.mask | row.sb_mask) & ((1 << row.width) - 1)
        for bits_ in row.fields.values():
            for b in bits_:
                free &= ~(1 << b)
        w |= rng.getrandbits(row.width) & free
        if table.match(w) is row:
            return w
    return None


def reglist(rng, k):
    """structured register lists: single, pairs, only high registers (SP/LR/PC with nothing below), everything,
    dense low ranges"""
    top = [b for b in (13, 14, 15) if b < k] or [k - 1]
    r = rng.random()
    if r < 0.2:
        return 1 << rng.randrange(k)
    if r < 0.4:
        return (1 << rng.randrange(k)) | (1 << rng.randrange(k))
    if r < 0.65:
        v = 0
        for b in top:
            if rng.random() < 0.6:
                v |= 1 << b
        return v or (1 << top[0])
    if r < 0.75:
        return (1 << k) - 1
    if r < 0.85:
        return ((1 << k) - 1) & ~(1 << rng.randrange(k))
    lo = rng.randrange(k)
    hi = rng.randrange(lo, k)
    return ((1 << (hi + 1)) - 1) & ~((1 << lo) - 1)


def neighbour_words(table, wanted, rng, attempts):
    """words of `wanted` rows that lie one fixed bit away from a word of ANOTHER row (alias encodings such as
    PUSH = STR Rt,[SP,#-4]!, literal forms, SEE redirections): errors of the decoder's special-case tests show up
    exactly there.  Yields (word, row)."""
    rows = [r for r in table.rows if r.mask]
    for _ in range(attempts):
        src = rows[rng.randrange(len(rows))]
        w = gen_word(table, src, rng, tries=4)
        if w is None:
            continue
        mbits = [b for b in range(src.width) if (src.mask >> b) & 1]
        w2 = w ^ (1 << rng.choice(mbits))
        if rng.random() < 0.2:
            w2 ^= 1 << rng.choice(mbits)
        dst = table.match(w2)
        if dst is not None and dst is not src and id(dst) in wanted:
            yield w2, dst


CENSUS_REGS = ('cpsr', 'sctlr', 'scr', 'hcr', 'hsctlr', 'nsacr', 'cpacr', 'hcptr', 'hstr', 'ttbcr')


def census_sets(ls):
    """'reg:bit=0' / 'reg:bit=1' for every control-register bit value that occurred in a stepped pre-state (sets are united
    over the shards; the evidence lists the bits that were seen with BOTH values)"""
    out = set()
    for reg_, (ones, zeros) in (getattr(ls, '_census', None) or {}).items():
        for b in range(32):
            if (ones >> b) & 1:
                out.add('%s:%d=1' % (reg_, b))
            if (zeros >> b) & 1:
                out.add('%s:%d=0' % (reg_, b))
    return out


def categ(name):
    if name == 'PC':
        return 'PC'
    if name == 'cpsr':
        return 'cpsr'
    if name.startswith('mem'):
        return 'mem'
    if name.startswith('spsr') or name == 'elr_hyp':
        return 'spsr'
    if name[:2] in ('SP', 'LR') or (name[0] == 'R' and name[1].isdigit()):
        return 'reg'
    return 'sys:' + name


def cpsr_kind(exp, got, unknown=0):
    x = (exp ^ got) & ~unknown & 0xFFFFFFFF
    out = []
    if x & 0xF0000000:
        out.append('NZCV')
    if x & (1 << 27):
        out.append('Q')
    if x & 0x000F0000:
        out.append('GE')
    if x & 0x0600FC00:
        out.append('IT')
    if x & 0x1F:
        out.append('M')
    if x & ((1 << 24) | (1 << 5)):
        out.append('JT')
    if x & ((1 << 9) | (1 << 8) | (1 << 7) | (1 << 6)):
        out.append('EAIF')
    return '+'.join(out) or 'other'


class LockStep:
    def __init__(self, pid, rng):
        self.pid = pid
        self.rng = rng
        self.ctxs = {}
        self.res = dict(evaluations=0, nontrivial=set(), counters={}, violations=[], samples=[],
                        sets={'rows': set(), 'contexts': set()})
        self.viol = {}

    def ctx(self, key):
        if key not in self.ctxs:
            self.ctxs[key] = scen.Ctx(*key)
        return self.ctxs[key]

    def bump(self, k, n=1):
        c = self.res['counters']
        c[k] = c.get(k, 0) + n

    def report(self, key, desc, replay, pre=None):
        if key not in self.viol:
            if pre is not None:
                # the complete pre-state of the first case of the cluster (registers, system registers, all memory): the
                # replay restores it and repeats the judged step, whatever hooks had prepared the state
                replay = dict(replay, snapshot=observe.jsonable(pre, mem=True))
            self.viol[key] = dict(key=key, desc=desc, replay=replay, count=0)
        self.viol[key]['count'] += 1

    def run(self, ctx, desc, tag='', want=None, after_prepare=None):
        """one monitored step on the CPU of ctx (already prepared).  Returns (verdict, info, diffs)"""
        cpu = ctx.cpu
        if after_prepare is not None:
            after_prepare(cpu)
        pre = observe.snapshot(cpu)
        # census of the pre-states actually stepped: which bits of the control registers were seen as 0 and as 1
        cs = self.__dict__.setdefault('_census', {})
        for reg_ in CENSUS_REGS:
            v_ = pre.get(reg_)
            if isinstance(v_, int):
                c_ = cs.get(reg_)
                if c_ is None:
                    cs[reg_] = [v_ & 0xFFFFFFFF, ~v_ & 0xFFFFFFFF]
                else:
                    c_[0] |= v_ & 0xFFFFFFFF
                    c_[1] |= ~v_ & 0xFFFFFFFF
        k, sig = scen.step(cpu)
        post = observe.snapshot(cpu)
        verdict, ref, info = RS.step(pre, ctx.cfg)
        self.res['evaluations'] += 1
        self.bump('ref_' + verdict)
        info['emu'] = k
        info['emu_sig'] = sig
        if verdict != 'ok':
            return verdict, info, None, pre, post, ref
        rowname = info.get('row') or '<undefined>'
        self.res['sets']['rows'].add(rowname)
        if k == 'host':
            self.bump('emu_host_error_left_to_C18')
            return 'host', info, None, pre, post, ref
        if k == 'notimpl':
            self.bump('emu_notimpl')
            self.res['sets'].setdefault('rows_emu_notimpl_while_ref_ok', set()).add('%s:%s' % (rowname, ','.join(ref.events) or 'completed'))
            if ref.events == ['hyptrap']:
                # the emulator takes the Hyp trap and then still reaches its mock back-end: the trap itself is judged
                self.bump('hyp_trap_then_notimpl_judged')
                return 'ok', info, RS.compare(ref, post), pre, post, ref
            return 'notimpl', info, None, pre, post, ref
        if info.get('undefined_failed_cond'):
            # either NOP or Undefined exception is architectural
            alt = dict(pre)
            alt['PC'] = (pre['PC'] + ref.length) & 0xFFFFFFFF
            same = all(post[x] == alt[x] for x in alt if x != 'cpsr') and not ((post['cpsr'] ^ alt['cpsr']) & ~0x0600FC00)
            if same:
                return 'ok', info, [], pre, post, ref
        diffs = RS.compare(ref, post)
        if diffs and info.get('cond_passed') is False:
            # an instruction that is UNDEFINED in this state (mode, security...) and fails its condition may either be a
            # NOP or take the Undefined Instruction exception (IMPLEMENTATION DEFINED)
            v2, ref2, info2 = RS.step(pre, ctx.cfg, force_cond=True)
            if v2 == 'ok' and ref2.events == ['undef'] and not info2.get('undef_from_execution') and not RS.compare(ref2, post):
                self.bump('undefined_with_failed_condition_trapped')
                return 'ok', info, [], pre, post, ref
        return 'ok', info, diffs, pre, post, ref

    def judge(self, ctx, desc, tag, keyfn=None):
        verdict, info, diffs, pre, post, ref = self.run(ctx, desc, tag)
        if verdict != 'ok':
            return verdict, info
        rowname = (info.get('row') or 'undefined')
        base = rowname.rsplit('_', 1)[0] if info.get('row') else 'undefined'
        if observe.diff(pre, post) - {'PC'}:
            self.res['nontrivial'].add('%s|%s|%s' % (rowname, tag, ctx.cfgname))
        # what the judged steps did (evidence: the monitor saw these behaviours, not just "ran")
        for ev in getattr(ref, 'events', ()) or ():
            self.bump('judged_steps_taking_' + ev)
        if info.get('cond_passed') is False:
            self.bump('judged_steps_condition_failed')
        if getattr(ref, 'footprint_w', None):
            self.bump('judged_steps_writing_memory')
        if getattr(ref, 'translations', None):
            self.bump('judged_steps_accessing_data')
        if pre['PC'] != 0x10000:
            self.bump('judged_steps_code_not_at_default_address')
        if (pre['cpsr'] >> 9) & 1:
            self.bump('judged_steps_big_endian_data')
        if self.pid == 'C12' and verdict == 'ok':
            self.bump('negative_invariants_checked')
            pm, qm = pre['cpsr'] & 0x1F, post['cpsr'] & 0x1F
            x = pre['cpsr'] ^ post['cpsr']
            why = None
            if ref.events:
                pass        # an exception was taken: entry legitimately changes mode, masks and execution state
            elif pm == 0x10 and qm == 0x10 and (x & 0x1DF):
                why = 'unprivileged-code-changed-AIF-or-M'
            elif qm not in (0x10, 0x11, 0x12, 0x13, 0x17, 0x1B, 0x1F) and not (
                    (qm == 0x16 and ctx.cfg['have_security_ext']) or (qm == 0x1A and ctx.cfg['have_virt_ext'])):
                why = 'illegal-mode-installed'
            elif pm == qm and (x & ((1 << 24) | (1 << 5))) and not (info.get('row') or '').startswith(
                    ('subs_pc_lr', 'eret', 'rfe', 'ldm_exception_return')):
                why = 'execution-state-bits-changed-without-exception-return'
            if why:
                self.report('C12|invariant|%s|%s' % (why, rowname), dict(desc, pre_cpsr='%#x' % pre['cpsr'], post_cpsr='%#x' % post['cpsr']), desc)
        if self.pid == 'C04' and verdict == 'ok':
            self.bump('pc_alignment_checked')
            t = (post['cpsr'] >> 5) & 1
            if (post['cpsr'] >> 24) & 1 == 0 and (post['PC'] & (1 if t else 3)):
                self.report('C04|misaligned-pc|%s' % rowname, dict(desc, pc='%#x' % post['PC'], thumb=t), desc)
        if diffs:
            kinds = []
            for loc, exp, got in diffs:
                c = categ(loc)
                if c == 'cpsr':
                    c = 'cpsr:' + cpsr_kind(exp, got, ref.cpsr_unknown)
                kinds.append(c)
            key = '%s|%s|%s' % (self.pid, rowname, ','.join(sorted(set(kinds)))[:70])
            from vf.ref import deviations
            for dev in deviations.for_row(rowname):
                v2, ref2, info2 = RS.step(pre, ctx.cfg, deviation=dev)
                if v2 == 'ok' and not RS.compare(ref2, post):
                    key = '%s|%s|known-deviation:%s' % (self.pid, rowname, dev.name)
                    break
            if keyfn:
                key = keyfn(key, info, diffs)
            d = dict(desc, row=rowname, operands={k_: str(v) for k_, v in (info.get('ops') or {}).items()},
                     diffs=[(l, '%#x' % e if isinstance(e, int) else str(e), '%#x' % g if isinstance(g, int) else str(g))
                            for l, e, g in diffs[:6]])
            self.report(key, d, desc, pre=pre)
            return 'violation', info
        if len(self.res['samples']) < 3 and self.rng.random() < 0.003:
            self.res['samples'].append(dict(desc, row=rowname, outcome='agrees with reference',
                                            changed=sorted(observe.diff(pre, post))[:8]))
        return 'agree', info
