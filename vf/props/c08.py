"""C08 — IT blocks.  (1) it_advance() against the reference ITAdvance for all 256 ITSTATE values;
(2) programs "IT<x><y><z> cond ; up to four instructions" run in lock-step with the reference after every
step, for every legal (firstcond, mask) x all 16 NZCV, with an exception (SVC, UDF, alignment-faulting load)
injected at a chosen slot followed by the architectural return sequence in an ARM or Thumb handler."""
import random
from vf.common import use_repo, rng_for
use_repo()

ID = 'C08'
LEVEL = 'exploration'
SHARD_TIMEOUT = {'quick': 900, 'thorough': 7200}
RULE = ('case = one program: IT with a legal (firstcond, mask) [all 15x15 minus the UNPREDICTABLE AL forms], NZCV (all 16), '
        'then the block\'s 1-4 instructions drawn from {16-bit ALU that would set flags, 32-bit ALU, MSR APSR_<bits>, Rn, load, branch in the '
        'last slot (B, or BX/BLX/POP/LDR/MOV to the PC into ARM or Thumb code)}, an exception return in the last slot also restores an ITSTATE (landing inside an IT block; the restored value may equal the one the return executes under), an SVC handler that installs another saved status with MSR SPSR_fsxc before it returns, optionally an exception at slot k in {SVC, UDF, '
        'alignment-faulting LDR, WFI trapped to Hyp mode by HCR.TWI} with an ARM or Thumb handler '
        'that performs the standard return; EVERY step (incl. entry and return) is compared location-by-location with '
        'the reference step from the same snapshot, and ITSTATE must be 0 when the block is finished; plus it_advance() '
        'for all 256 ITSTATE values. non-trivial = at least one slot executed and one skipped, or an exception taken; '
        'distinct = (firstcond, mask, NZCV, mix, exception kind, slot)')
ASSUMPTIONS = ['vf/ref (ITAdvance, condition table, exception entry/return) transcribes the ARM ARM']

SLOT_16 = [0x1888, 0x4048, 0x0049, 0x3101, 0x4251]      # ADDS r0,r1,r2 ; EORS r0,r1 ; LSLS r1,r1,#1 ; ADDS r1,#1 ; NEGS r1,r2
SLOT_32 = [0xF1040301, 0xEB010203, 0xF0810155]          # ADD.W r3,r4,#1 ; ADD.W r2,r1,r3 ; EOR.W r1,r1,#0x55
SLOT_LD = [0x6835, 0x7831]                              # LDR r5,[r6] ; LDRB r1,[r6]


_slot_rows = {}


def random_slot_word(rng, kind):
    from vf import lockstep
    from vf.ref.step import tables
    tab = tables()[kind]
    if kind not in _slot_rows:
        fam = ('dp', 'ls', 'mul', 'mla', 'mls', 'umull', 'umlal', 'smull', 'smlal', 'xt', 'xta', 'bfc', 'ubfx', 'sbfx', 'clz', 'rev',
               'movt', 'adr', 'qadd', 'ssat', 'usat', 'par', 'sel', 'ldm', 'stm', 'push', 'pop')
        _slot_rows[kind] = [r for r in tab.rows if r.kind == 'INSTR' and r.sem and r.sem.split(':')[0] in fam]
    row = rng.choice(_slot_rows[kind])
    fixed = None
    if rng.random() < 0.3:
        # one register operand pinned to the SP or LR (whose numbers, 1101 / 1110, look like condition-field patterns)
        regf = [ch for ch, b in row.fields.items() if len(b) == 4 and ch in 'ndmstauhl']
        if regf:
            fixed = {rng.choice(regf): rng.choice([13, 13, 14])}
    return lockstep.gen_word(tab, row, rng, tries=4, fixed=fixed)


def legal_it():
    out = []
    for fc in range(15):
        for mask in range(1, 16):
            if fc == 14 and bin(mask).count('1') != 1:
                continue
            out.append((fc, mask))
    return out


def block_len(mask):
    low = (mask & -mask).bit_length() - 1       # position of the lowest set bit
    return 4 - low


def plan(tier, seed):
    q = tier == 'quick'
    n = 12 if q else 48
    return [dict(kind='table', seed=seed, shard=0)] + [dict(kind='programs', seed=seed, shard=i, of=n, mixes=3 if q else 60)
                                                         for i in range(n)]


def run_shard(spec):
    from vf import lockstep, scen, machine as M, observe
    from vf.ref.model import RefCPU
    rng = rng_for(ID, spec['kind'], spec['seed'], spec['shard'])
    ls = lockstep.LockStep(ID, rng)
    res = ls.res
    res['sets']['itstates'] = set()
    if spec['kind'] == 'table':
        ctx = ls.ctx(('v7-pmsa-r', 'off'))
        for it in range(256):
            cpu = ctx.fresh()
            cpu.registers.cpsr.value = 0x30 | 0x13
            cpu.registers.cpsr.it = it
            pre = observe.snapshot(cpu, mem=False)
            cpu.registers.it_advance()
            got = cpu.registers.cpsr.it
            ref = RefCPU(dict(pre), ctx.cfg)
            ref.it_advance()
            res['evaluations'] += 1
            ls.bump('it_advance_values')
            res['nontrivial'].add('adv|%d' % it)
            if got != ref.itstate() or (cpu.registers.cpsr.value & ~0x0600FC00) != (pre['cpsr'] & ~0x0600FC00):
                ls.report('C08|it_advance|low3=%d' % (it & 7), 'ITSTATE %s advances to %s, reference %s' % (
                    format(it, '08b'), format(got, '08b'), format(ref.itstate(), '08b')), dict(it=it))
        res['violations'] = list(ls.viol.values())
        return res
    pairs = legal_it()
    idx = 0
    for fc, mask in pairs:
        for nzcv in range(16):
            idx += 1
            if idx % spec['of'] != spec['shard']:
                continue
            for mix in range(spec['mixes']):
                run_program(ls, rng, fc, mask, nzcv)
    res['violations'] = list(ls.viol.values())
    return res


def run_program(ls, rng, fc, mask, nzcv):
    from vf import scen, machine as M, observe
    n = block_len(mask)
    exc = rng.choice([None, None, 'svc', 'udf', 'abort', 'hyptrap'])
    slot = rng.randrange(n)
    te = rng.randrange(2)
    if exc == 'hyptrap':
        ctx = ls.ctx(('v7-vmsa-virt', 'off'))       # WFI trapped to Hyp mode by HCR.TWI from Non-secure state
        te = 1                                      # the emulator implements ERET only in Thumb (T1)
    else:
        ctx = ls.ctx(rng.choice([('v7-pmsa-r', 'off'), ('v6-pmsa-sec', 'off'), ('v7-vmsa-sec', 'off')]))
    code = scen.CODE
    regs = [rng.getrandbits(32) for _ in range(15)]
    regs[6] = 0x1000                         # load base (aligned)
    regs[13] = 0x7000
    desc = scen.prepare(ctx, rng, 't16', 0xBF00 | (fc << 4) | mask, mode=rng.choice(['svc', 'usr', 'sys', 'irq']), itpos='out',
                        nzcv=nzcv, regs=regs, aif=0b111, e=1 if rng.random() < 0.2 else 0,
                        ns=1 if exc == 'hyptrap' else (rng.randrange(2) if ctx.cfg['have_security_ext'] else 0))
    cpu = ctx.cpu
    r = cpu.registers
    r.sctlr.v = 0
    r.vbar.value = 0
    r.sctlr.te = te
    if ctx.cfg['have_security_ext']:
        r.scr.aw = rng.randrange(2)            # mask rules of the entries taken inside the block (Non-secure state included)
        r.scr.fw = rng.randrange(2)
    if exc == 'hyptrap':
        r.hcr.twi = 1
        r.hvbar = 0
        r.hsctlr.te = te
    if ctx.cfg['arch_version'] >= 7:
        r.sctlr.u = 1
    body = bytearray()
    kinds = []
    for i in range(n):
        if exc and i == slot:
            if exc == 'svc':
                body += (0xDF00 | rng.getrandbits(8)).to_bytes(2, 'little')
            elif exc == 'udf':
                body += (0xDE00 | rng.getrandbits(8)).to_bytes(2, 'little')
            elif exc == 'hyptrap':
                body += (0xBF30).to_bytes(2, 'little')      # WFI
            else:
                body += (0x6835).to_bytes(2, 'little')      # LDR r5,[r6] with r6 unaligned and SCTLR.A = 1
                r.sctlr.a = 1
                r.set(6, 0x1002)
            kinds.append(exc)
        elif i == n - 1 and rng.random() < 0.45:
            # a branch as the last instruction of the block: B, or an interworking branch to ARM or Thumb code
            bk = rng.choice(['b', 'b', 'bx', 'bx', 'blx', 'pop', 'ldrpc', 'movpc', 'rfe'])
            if bk in ('ldrpc', 'rfe') and exc == 'abort':
                bk = 'bx'
            if bk == 'rfe' and desc['mode'] == 'usr':
                bk = 'bx'                                         # RFE is UNPREDICTABLE in User mode
            to_arm = rng.random() < 0.5
            target = (code + 0x100) if to_arm else ((code + 0x80) | 1)
            if bk == 'b':
                body += (0xE000 | 0x004).to_bytes(2, 'little')   # B .+12
            elif bk == 'bx':
                body += (0x4738).to_bytes(2, 'little')           # BX r7
            elif bk == 'blx':
                body += (0x47B8).to_bytes(2, 'little')           # BLX r7
            elif bk == 'movpc':
                body += (0x46BF).to_bytes(2, 'little')           # MOV pc, r7
            elif bk == 'rfe':
                # an exception return as the block's last instruction: RFEIA r6 (T2) loading the target and a CPSR image
                # that keeps the mode and selects the target's instruction set - skipped like anything else when the
                # slot's condition fails
                body += (0xE996).to_bytes(2, 'little') + (0xC000).to_bytes(2, 'little')
                img = (r.cpsr.value & 0xF80F03DF) | (0 if to_arm else 0x20)
                if not to_arm and rng.random() < 0.6:
                    # ... and, returning to Thumb code, an ITSTATE of its own: the return lands INSIDE an IT block (Thumb NOPs
                    # there).  Among the values: the very ITSTATE the returning instruction executes under (cond:1000 with
                    # either value of the condition's low bit) - "restored" and "unchanged" must not be confused
                    its = rng.choice([(fc << 4) | 0b1000, ((fc ^ 1) << 4) | 0b1000, (fc << 4) | 0b1000, ((fc ^ 1) << 4) | 0b1000,
                                      (rng.randrange(14) << 4) | rng.choice([0b1000, 0b0100, 0b1100, 0b0110, 0b0001])])
                    img |= ((its & 3) << 25) | ((its >> 2) << 10)
                    kinds.append('rfe-into-it-%02x' % its)
                bo = 'big' if r.cpsr.e else 'little'
                M.poke(cpu, 0x1000, (target & ~1).to_bytes(4, bo) + img.to_bytes(4, bo))
            elif bk == 'pop':
                body += (0xBD00).to_bytes(2, 'little')           # POP {pc}
                M.poke(cpu, 0x7000, target.to_bytes(4, 'little'))
            else:
                body += (0xF8D6).to_bytes(2, 'little') + (0xF000).to_bytes(2, 'little')   # LDR.W pc, [r6]
                M.poke(cpu, 0x1000, target.to_bytes(4, 'little'))
            r.set(7, target)
            M.poke(cpu, code + 0x100, (0xE1A00000).to_bytes(4, 'little') * 8)      # ARM NOPs
            M.poke(cpu, code + 0x80, b'\x00\xbf' * 16)                            # Thumb NOPs
            kinds.append(bk + ('>arm' if to_arm and bk != 'b' else ''))
        else:
            k = rng.choice(['a16', 'a16', 'a32', 'ld', 'r32', 'r16', 'a32msr'])
            if k == 'a32msr':
                # the instruction that WRITES the CPSR from a register inside the block: MSR APSR_nzcvq / _g / _nzcvqg, Rn (the
                # registers hold random words, so Rn<26:25> and Rn<15:10> - where ITSTATE lives - are arbitrary)
                w = 0xF3808000 | (rng.randrange(13) << 16) | (rng.choice([0b10, 0b01, 0b11]) << 10)
                body += (w >> 16).to_bytes(2, 'little') + (w & 0xFFFF).to_bytes(2, 'little')
                kinds.append(k)
                continue
            if k in ('r32', 'r16'):
                # any data-processing / load-store / multiply encoding of the reference tables with random operands (registers
                # r0-r12): the condition each slot runs under must come from ITSTATE whatever the instruction's own bits say
                w = random_slot_word(rng, 't32' if k == 'r32' else 't16')
                if w is None:
                    k = 'a16'
                    body += rng.choice(SLOT_16).to_bytes(2, 'little')
                elif k == 'r32':
                    body += (w >> 16).to_bytes(2, 'little') + (w & 0xFFFF).to_bytes(2, 'little')
                else:
                    body += w.to_bytes(2, 'little')
            elif k == 'a16':
                body += rng.choice(SLOT_16).to_bytes(2, 'little')
            elif k == 'a32':
                w = rng.choice(SLOT_32)
                body += (w >> 16).to_bytes(2, 'little') + (w & 0xFFFF).to_bytes(2, 'little')
            else:
                body += rng.choice(SLOT_LD).to_bytes(2, 'little')
            kinds.append(k)
    if rng.random() < 0.5:
        # the block's own 16-bit slot instructions once more BEHIND the block: the identical halfword inside and outside an IT
        # block on the same processor object (16-bit data-processing encodings set the flags only outside)
        off = 0
        tail = bytearray()
        for k_ in kinds:
            ln = 4 if k_.startswith(('a32', 'r32', 'ldrpc', 'rfe')) else 2
            if k_ in ('a16', 'r16'):
                tail += body[off:off + 2]
            off += ln
        if tail:
            body += tail
            ls.bump('programs_repeating_slot_words_behind_the_block')
    body += b'\x00\xbf' * 12                               # NOPs after the block
    M.poke(cpu, code + 2, bytes(body))
    # handlers at the vectors: return to the instruction after the one that trapped
    if te == 0:
        M.poke(cpu, 0x04, (0xE1B0F00E).to_bytes(4, 'little'))      # UND: MOVS PC, LR
        M.poke(cpu, 0x08, (0xE1B0F00E).to_bytes(4, 'little'))      # SVC: MOVS PC, LR
        M.poke(cpu, 0x10, (0xE25EF006).to_bytes(4, 'little'))      # ABT: SUBS PC, LR, #6 (skip the 16-bit load)
        if exc == 'svc' and rng.random() < 0.4:
            # the SVC handler switches context: it installs ANOTHER saved program status - same mode, Thumb, an ITSTATE with
            # up to four slots pending - with MSR SPSR_fsxc, r9 and returns; what is restored is what was installed
            its = (rng.randrange(14) << 4) | rng.choice([0b0001, 0b0011, 0b0010, 0b0110, 0b0100, 0b1100, 0b1000, 0b0111])
            img = (r.cpsr.value & 0xF80F03DF) | 0x20 | ((its & 3) << 25) | ((its >> 2) << 10)
            r.set(9, img)
            M.poke(cpu, 0x08, (0xE16FF009).to_bytes(4, 'little') + (0xE1B0F00E).to_bytes(4, 'little'))   # MSR SPSR_fsxc, r9 ; MOVS PC, LR
            kinds.append('rfe-into-it-by-msr-spsr-%02x' % its)
    else:
        for vec, imm in ((0x04, 0), (0x08, 0), (0x10, 6)):
            M.poke(cpu, vec, (0xF3DE).to_bytes(2, 'little') + (0x8F00 | imm).to_bytes(2, 'little'))   # SUBS PC, LR, #imm
    if exc == 'hyptrap':
        # Hyp trap vector: ERET back to the trapped WFI (the harness clears HCR.TWI once Hyp mode is entered, standing in
        # for the handler's MCR, which the emulator does not implement)
        if te == 0:
            M.poke(cpu, 0x14, (0xE160006E).to_bytes(4, 'little'))
        else:
            M.poke(cpu, 0x14, (0xF3DE).to_bytes(2, 'little') + (0x8F00).to_bytes(2, 'little'))
    desc.update(program=bytes(body[:12]).hex(), slots=kinds, exc=exc, slot=slot, te=te, firstcond=fc, mask=mask, nzcv=nzcv)
    executed = skipped = 0
    trace = []
    took = False
    stopped_early = False
    known_code = [(code, code + 2 + len(body)), (code + 0x80, code + 0xA0), (code + 0x100, code + 0x120), (0x4, 0x18)]
    for stepno in range(n + 5):
        pc_now = ctx.cpu.registers._R[type(next(iter(ctx.cpu.registers._R))).PC]
        if not any(lo <= pc_now < hi for lo, hi in known_code):
            ls.bump('program_left_its_code')       # e.g. a handler's fixed return offset after a 32-bit slot: whatever lies there is not the program
            stopped_early = True
            break
        d2 = dict(desc, step=stepno)
        verdict, info, diffs, pre, post, ref = ls.run(ctx, d2)
        ls.res['sets']['itstates'].add(str((((pre['cpsr'] >> 10) & 0x3F) << 2) | ((pre['cpsr'] >> 25) & 3)))
        trace.append('%#x:%s:%s' % (pre['PC'], info.get('row'), verdict))
        if verdict not in ('ok',):
            ls.bump('program_stopped_' + verdict)
            stopped_early = True
            break
        if info.get('cond_passed') is True:
            executed += 1
        elif info.get('cond_passed') is False:
            skipped += 1
        if (post['cpsr'] & 0x1F) != (pre['cpsr'] & 0x1F):
            took = True
            if exc == 'hyptrap' and (post['cpsr'] & 0x1F) == 0b11010:
                ctx.cpu.registers.hcr.twi = 0
        if diffs:
            # a difference that one of the recorded findings (known_findings.json: PUSH T2 with an unaligned SP, CBZ's offset...)
            # explains completely belongs to that finding's properties, not to the IT machinery: the program is dropped there
            from vf.ref import deviations
            from vf.ref import step as RS_
            explained = False
            for dev in deviations.for_row(info.get('row') or ''):
                v2, ref2, info2 = RS_.step(pre, ctx.cfg, deviation=dev)
                if v2 == 'ok' and not RS_.compare(ref2, post):
                    explained = True
                    break
            if explained:
                ls.bump('programs_dropped_at_a_recorded_finding_of_another_property')
                stopped_early = True
                break
            kinds_ = sorted({lockstep_categ(l, e, g, ref) for l, e, g in diffs})
            ls.report('C08|step|%s|%s' % (info.get('row'), ','.join(kinds_)[:60]),
                      dict(d2, row=info.get('row'), diffs=[(l, '%#x' % e if isinstance(e, int) else str(e),
                                                             '%#x' % g if isinstance(g, int) else str(g)) for l, e, g in diffs[:5]]), d2, pre=pre)
            break
        pc = post['PC']
        if kinds[-1] not in ('a16', 'a32', 'ld', 'b', 'svc', 'udf', 'abort', 'hyptrap') and pc >= code + 0x80 and stepno >= n:
            ls.bump('programs_ending_in_interworking_branch')
            break
        if pc >= code + 2 + len(body) - 8 and (post['cpsr'] & 0x1F) == (desc_mode(desc)):
            break
    else:
        pass
    ls.bump('programs')
    if exc:
        ls.bump('programs_with_' + exc)
    final_it = ctx.cpu.registers.cpsr.it
    # skipping a trapped instruction by returning to the next one without editing SPSR.IT legitimately leaves the
    # block skewed (UDF, aborting load); only SVC (whose entry advances ITSTATE first) resumes exactly
    if stopped_early or any(k_ in ('r32', 'r16') or k_.startswith('rfe-into-it') for k_ in kinds):
        # random slot instructions may abort or be UNPREDICTABLE: the end-of-block invariant is only judged for the fixed
        # instruction mix (every single step is still compared with the reference); an exception return that installs an
        # ITSTATE of its own opens a new block whose end lies outside the program
        exc = 'not-judged-to-the-end'
    if exc is None and took:
        ls.bump('programs_with_unplanned_exception')          # a random slot instruction aborted / was undefined: the block is
        exc = 'unplanned'                                    # legitimately skewed by the handler's fixed return offset
    if exc in (None, 'svc', 'hyptrap') and (ctx.cpu.registers.cpsr.m == desc_mode(desc)) and final_it != 0 and not ls.viol:
        ls.report('C08|itstate-not-retired', dict(desc, final_it=final_it, trace=trace), desc)
    if (executed and skipped) or took:
        ls.res['nontrivial'].add('%d|%d|%d|%s|%s|%d' % (fc, mask, nzcv, ''.join(k[0] for k in kinds), exc, slot))


def desc_mode(desc):
    from vf import machine as M
    return M.MODES[desc['mode']]


def lockstep_categ(loc, exp, got, ref):
    from vf import lockstep
    c = lockstep.categ(loc)
    if c == 'cpsr':
        c = 'cpsr:' + lockstep.cpsr_kind(exp, got, ref.cpsr_unknown)
    return c


def replay(data):
    from vf.props import _lock as L
    if (data.get('replay') or {}).get('snapshot'):
        return L.replay_rows('C08', data)          # the judged step of a program, from its complete pre-state
    return dict(evaluations=0, violations=[], not_replayable='this cluster is described in full by the file; it has no executable replay')


def finish(agg, tier, seed):
    c = agg['counters']
    inc = []
    if c.get('it_advance_values', 0) != 256:
        inc.append('it_advance not checked for all 256 ITSTATE values')
    if c.get('programs', 0) < 3000:
        inc.append('too few programs')
    for e in ('svc', 'udf', 'abort'):
        if c.get('programs_with_' + e, 0) < 100:
            inc.append('too few programs with %s' % e)
    return dict(inconclusive=inc, coverage=dict(
        exhaustive_subspaces=['it_advance for all 256 ITSTATE values', 'all legal (firstcond, mask) pairs x 16 NZCV as programs'],
        itstates_visited=len(agg['sets'].get('itstates', ())),
        explanation='(firstcond, mask, NZCV) enumerated completely; instruction mixes and exception positions sampled'))
