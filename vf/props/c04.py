"""C04 — control flow: lock-step on every branch encoding (B, BL, BLX, BX, BXJ, CBZ/CBNZ, TBB/TBH) with code
placed in the middle and at both ends of the address space, exhaustive imm8 / imm11 / CBZ offsets, and the
PC-alignment invariant on every monitored step.  PC advance of non-branch instructions and PC writes by
loads/ALU are compared in every lock-step check (the PC is one of the compared locations)."""
import random
from vf.props import _lock as L
from vf.common import rng_for

ID = 'C04'
LEVEL = 'exploration'
SHARD_TIMEOUT = L.SHARD_TIMEOUT
FAMILY = ('b', 'b_cond', 'bl', 'bx', 'blx_reg', 'bxj', 'cbz', 'tbb')
RULE = ('case = (word from a branch row with offsets from corners/random - every single-bit offset and both extremes '
        'included by the field generator - or, in the enumeration shards, EVERY imm8 of B T1, imm11 of B T2 and i:imm5 of '
        'CBZ/CBNZ), instruction placed at 0x10000, 0x0, 0x4, 0xFFFFFFF0, 0xFFFFFFFC (increment and targets wrap) and, in Thumb '
        'state, at halfword-but-not-word aligned addresses (Align(PC,4) of BLX / ADR-like forms), '
        'registers holding interworking targets (bit0 set/clear, bit1 set), arch 4..7; PC, LR, T bit and everything else '
        'compared; PC alignment invariant (Thumb: bit0 = 0, ARM: bits1:0 = 0) after every step; plus every load and data-processing encoding with the PC as destination (register lists with bit 15, Rt = 15, Rd = 15; addresses solved onto boundaries), and every store / data-processing / load encoding with the PC as a SOURCE operand (stored register, bit 15 of a stored list, Rn, Rm, base); non-trivial = branch '
        'taken; distinct = (row, configuration, code address class)')
ASSUMPTIONS = ['vf/ref/sem_sys.py transcribes the branch pseudocode; BXJ with Jazelle enabled / trapped is not judged']
CODES = [0x10000, 0x10000, 0x0, 0x4, 0xFFFFFFF0, 0xFFFFFFFC, 0xFFFFF800, 0x10FF0, 0x10002, 0x10006, 0x2, 0x6, 0xFFFFFFF2, 0xFFFFFFFA,
         0xFFFFFFFE]     # (ARM-state cases use the word-aligned address below)
TARGETS = [0x10000, 0x10001, 0x10002, 0x10003, 0x0, 0x1, 0xFFFFFFFF, 0xFFFFFFFE, 0xFFFFFFFC, 0x7FFC, 0x7FFD, 0x11001, 0x4, 0x80000001]


def regs(rng):
    from vf import scen
    return [rng.choice(TARGETS) if rng.random() < 0.7 else scen.reg_value(rng) for _ in range(15)]


def prep(rng):
    return dict(code=rng.choice(CODES))


PC_FAMILY = ('ldm', 'pop', 'ls', 'dp', 'adr', 'ldm_eret', 'rfe', 'subs_pc_lr', 'subs_pc_lr_thumb', 'eret')


def pc_operand(row, rng):
    """pin the destination to the PC: register list with bit 15 (or the P bit of the 16-bit POP), Rt = 15, Rd = 15"""
    f = row.fields
    name = row.name
    if name.startswith(('str', 'stm', 'push', 'pld', 'pli')) or 'strex' in name:
        return None
    if 'r' in f and len(f['r']) in (15, 16):
        return {'r': (lockstep_reglist(rng, len(f['r'])) | (1 << 15)) & ((1 << len(f['r'])) - 1)} if len(f['r']) == 16 else None
    if 'P' in f and len(f['P']) == 1 and name.startswith('pop'):
        return {'P': 1}
    if row.sem and row.sem.split(':')[0] in ('rfe', 'subs_pc_lr', 'subs_pc_lr_thumb', 'eret'):
        return {}                 # exception returns always write the PC (and the CPSR, which selects the set the target is aligned for)
    if row.sem and row.sem.startswith('ls') and 't' in f and len(f['t']) == 4:
        return {'t': 15}
    if row.sem and row.sem.startswith(('dp', 'adr')) and 'd' in f and len(f['d']) == 4:
        return {'d': 15}
    if row.sem and row.sem.startswith('dp') and 'D' in f and len(f['D']) == 1 and 'd' in f and len(f['d']) == 3:
        return {'D': 1, 'd': 7}       # the split high-register field of the 16-bit ADD / MOV (register): DN:Rdn = PC
    return None


PCSRC_FAMILY = ('ls', 'stm', 'push', 'stm_user', 'dp', 'adr')


def pc_source(row, rng):
    """pin a SOURCE operand to the PC: the stored register of a single store (the one-register PUSH aliases included), bit 15
    of a stored register list, the first or second operand of a data-processing instruction, the base of a load"""
    f = row.fields
    name = row.name
    if 'strex' in name or name.startswith(('pld', 'pli')):
        return None
    if name.startswith(('stm', 'push')) and 'r' in f and len(f['r']) == 16:
        return {'r': (lockstep_reglist(rng, 16) | (1 << 15)) & 0xFFFF}
    if name.startswith(('str', 'push')) and 't' in f and len(f['t']) == 4:
        return {'t': 15}
    if row.sem and row.sem.startswith('dp'):
        cands = [ch for ch in 'nm' if ch in f and len(f[ch]) == 4]
        return {rng.choice(cands): 15} if cands else None
    if row.sem and row.sem.startswith('ls') and name.startswith('ldr') and 'n' in f and len(f['n']) == 4:
        return {'n': 15}
    return None


def lockstep_reglist(rng, k):
    from vf import lockstep
    return lockstep.reglist(rng, k)


def plan(tier, seed):
    specs = L.plan_rows(ID, FAMILY, tier, seed, 900, 40000, 12, 48)
    specs += [dict(s, kind='pcrows') for s in L.plan_rows(ID, PC_FAMILY, tier, seed, 60, 3000, 8, 32)]
    specs += [dict(s, kind='pcsrc') for s in L.plan_rows(ID, PCSRC_FAMILY, tier, seed, 30, 1500, 8, 32)]
    specs.append(dict(kind='enum', seed=seed, shard=0, reps=1 if tier == 'quick' else 40))
    return specs


def keyfn(key, info, diffs):
    return key


def run_shard(spec):
    if spec['kind'] == 'enum':
        return enum(spec)
    if spec['kind'] == 'pcrows':
        # every load and data-processing encoding that can write the PC, with the PC as destination: target, interworking
        # (bit 0 of the loaded / computed value), alignment, and where the PC word is read from
        def after(ctx, rng, desc):
            r = ctx.cpu.registers
            if ctx.cfg['arch_version'] >= 7:
                r.sctlr.u = 1
        return L.run_rows(ID, dict(spec, kind='rows'), PC_FAMILY, regs_fn=lambda rng: [__import__('vf.scen', fromlist=['x']).reg_value(rng) for _ in range(15)],
                          after=after, fixed_fn=pc_operand, solve_addr=0.1)
    if spec['kind'] == 'pcsrc':
        # ... and every encoding that can READ the PC as a source operand, with the PC there: the value read is the
        # instruction's own address plus 8 (ARM) or plus 4 (Thumb), whatever the instruction then does with it
        def after2(ctx, rng, desc):
            if ctx.cfg['arch_version'] >= 7:
                ctx.cpu.registers.sctlr.u = 1
        return L.run_rows(ID, dict(spec, kind='rows'), PCSRC_FAMILY, after=after2, fixed_fn=pc_source, solve_addr=0.3)
    return L.run_rows(ID, spec, FAMILY, regs_fn=regs, prep_kw=prep)


def enum(spec):
    from vf import lockstep, scen
    rng = rng_for(ID, 'enum', spec['seed'])
    ls = lockstep.LockStep(ID, rng)
    words = []
    for imm8 in range(256):
        words.append(('t16', 0xD000 | (rng.randrange(14) << 8) | imm8, 'b_t1'))
    for imm11 in range(2048):
        words.append(('t16', 0xE000 | imm11, 'b_t2'))
    for op in (0, 1):
        for i in (0, 1):
            for imm5 in range(32):
                words.append(('t16', 0xB100 | (op << 11) | (i << 9) | (imm5 << 3) | rng.randrange(8), 'cbz'))
    for rep in range(spec['reps']):
        for kind, w, tag in words:
            ctx = ls.ctx(rng.choice(L.CTXS_DEFAULT))
            rg = [rng.choice([0, 0, 1, 0x80000000]) for _ in range(15)]
            # B T1: flags such that the condition passes half of the time
            desc = scen.prepare(ctx, rng, kind, w, mode=rng.choice(ctx.legal_modes(0)), itpos='out', regs=rg,
                                code=rng.choice(CODES) & ~1)
            ls.judge(ctx, desc, 'enum-' + tag)
            ls.bump('enumerated_' + tag)
    ls.res['violations'] = list(ls.viol.values())
    return ls.res


def replay(data):
    return L.replay_rows(ID, data)


def finish(agg, tier, seed):
    inc = L.finish_rows(agg)
    c = agg['counters']
    if c.get('enumerated_b_t1', 0) < 256 or c.get('enumerated_b_t2', 0) < 2048 or c.get('enumerated_cbz', 0) < 128:
        inc.append('offset enumeration incomplete')
    if c.get('pc_alignment_checked', 0) < 1000:
        inc.append('PC alignment invariant evaluated too rarely')
    return dict(inconclusive=inc, coverage=dict(
        rows_exercised=len(agg['sets'].get('rows', ())),
        exhaustive_subspaces=['all imm8 of B T1, all imm11 of B T2, all i:imm5 x op of CBZ/CBNZ'],
        explanation='offset spaces named above enumerated; the rest sampled'))
