"""C02 — single-register loads and stores: lock-step against the reference memory model and load/store
semantics; byte-exact memory comparison (every device, every byte) gives the write footprint."""
from vf.props import _lock as L

ID = 'C02'
LEVEL = 'exploration'
SHARD_TIMEOUT = L.SHARD_TIMEOUT
# ... and the single-register PUSH / POP encodings, which ARE `STR Rt, [SP, #-4]!` / `LDR Rt, [SP], #4` (selected by row name)
FAMILY = ('ls', 'ldrex', 'strex', '=push_a2', '=pop_arm_a2', '=push_t3', '=pop_thumb_t3')
RULE = ('case = (word from one reference row of an LDR/STR-family encoding incl. B/H/SB/SH/D, literal, register-offset with '
        'every shift, T-variants, exclusives; all P/U/W), random valid state with address-like register values (next to 0, '
        'next to 2^32 where a RAM device ends, device boundaries, alignment 0..3), CPSR.E random, SCTLR.A/U random on '
        'ARMv6, ARMv7 with U=1, MPU/MMU off; for a third of the cases the first data access is moved onto a boundary (last '
        'words of the address space, end of a RAM device, address 0) by shifting the base register or - for PC-relative '
        'forms - the placement of the instruction; instruction placement also at halfword-aligned Thumb addresses and at the '
        'edges of the address space; every register, status bit and memory byte compared; non-trivial = memory '
        'or a register changed; distinct = (row, IT position, configuration)')
ASSUMPTIONS = ['vf/ref/mem.py + sem_mem.py transcribe MemA/MemU and the A8 load/store pseudocode',
               'exclusive monitors never grant (a permitted implementation): STREX status 1, no store',
               'UNKNOWN results (legacy unaligned halfword/Thumb word accesses) are not compared']
# protection on in a third of the contexts: the unprivileged forms (LDRT, STRT, LDRBT, STRBT, LDRHT ...) differ from the
# ordinary ones only there (a privileged-only region makes them abort), and an aborting access must leave the base alone
CTXS = [('v7-pmsa-r', 'off'), ('v6-pmsa-sec', 'off'), ('v7-vmsa-virt', 'off'), ('v6-pmsa', 'off'),
        ('v6-pmsa-sec', 'mpu'), ('v7-pmsa-r', 'mpu'), ('v7-vmsa-sec', 'mmu')]


def after(ctx, rng, desc):
    r = ctx.cpu.registers
    if ctx.cfg['arch_version'] >= 7:
        r.sctlr.u = 1
        r.sctlr.a = 1 if rng.random() < 0.25 else 0
    else:
        r.sctlr.u = rng.randrange(2)
        r.sctlr.a = 1 if rng.random() < 0.3 else 0
    desc['sctlr_a_u'] = (r.sctlr.a, r.sctlr.u)


def prep(rng):
    return dict(e=1 if rng.random() < 0.3 else 0)


def plan(tier, seed):
    specs = L.plan_rows(ID, FAMILY, tier, seed, 260, 12000)
    specs += [dict(s, kind='legacy') for s in L.plan_rows(ID, FAMILY, tier, seed, 60, 3000, 4, 16)]
    return specs


LEGACY_CTXS = [('v6-pmsa-sec', 'off'), ('v6-pmsa', 'off'), ('v5-pmsa', 'off'), ('v4-pmsa', 'off')]


def legacy_regs(rng):
    # small, mostly unaligned bases and small odd offsets: the legacy (SCTLR.U = 0, A = 0) rotate / align-down paths
    return [rng.choice([0x100, 0x1000, 0x3F8, 0x7FE0, 0x11F00, 0x11000]) + rng.randrange(8) if rng.random() < 0.6
            else rng.choice([0, 1, 2, 3, 4, 5, 6, 7, 8, 0x101, 0x103, 0xFFFFFFFF, 0xFFFFFFFD]) for _ in range(15)]


def legacy_after(ctx, rng, desc):
    r = ctx.cpu.registers
    r.sctlr.u = 0
    r.sctlr.a = 0
    desc['sctlr_a_u'] = (0, 0)


def run_shard(spec):
    from vf import scen
    if spec['kind'] == 'legacy':
        return L.run_rows(ID, dict(spec, kind='rows'), FAMILY, ctxs=LEGACY_CTXS, regs_fn=legacy_regs, prep_kw=prep, after=legacy_after)
    return L.run_rows(ID, spec, FAMILY, ctxs=CTXS, regs_fn=lambda rng: [scen.reg_value(rng) for _ in range(15)],
                      prep_kw=prep, after=after, solve_addr=0.35)


def replay(data):
    return L.replay_rows(ID, data)


def finish(agg, tier, seed):
    return dict(inconclusive=L.finish_rows(agg), coverage=dict(
        rows_exercised=len(agg['sets'].get('rows', ())), explanation='sampled per encoding'))
