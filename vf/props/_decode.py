"""Common body of C06 (ARM) and C07 (Thumb): see vf/decodecmp.py for the machinery."""
import random
from vf.common import use_repo, rng_for, exc_signature
use_repo()

SHARD_TIMEOUT = {'quick': 900, 'thorough': 7200}


def tables():
    from vf.ref.spec_arm import ARM
    from vf.ref.spec_t16 import T16
    from vf.ref.spec_t32 import T32
    return {'arm': ARM, 't16': T16, 't32': T32}


def real_decoders():
    from armulator.armv6.opcodes.decoders import arm_instruction_set, thumb_instruction_set_encoding_16_bit, \
        thumb_instruction_set_encoding_32_bit
    from vf import decodecmp as DC

    def pre16(w):
        a = DC.traced_eq(w, 0xE000, 0xE000)
        if a and not DC.traced_eq(w, 0x1800, 0):
            return '#first-half-of-32-bit'

    def pre32(w):
        a = DC.traced_eq(w, 0xE0000000, 0xE0000000)
        b = DC.traced_eq(w, 0x18000000, 0)
        if not a or b:
            return '#not-a-32-bit-thumb-word'
    return {'arm': (arm_instruction_set.decode_instruction, 32, None),
            't16': (thumb_instruction_set_encoding_16_bit.decode_instruction, 16, pre16),
            't32': (thumb_instruction_set_encoding_32_bit.decode_instruction, 32, pre32)}


class Mon:
    def __init__(self, pid, spec):
        from vf import scen, decodecmp
        self.pid = pid
        self.scen = scen
        self.DC = decodecmp
        self.cmap = decodecmp.class_map()
        self.tables = tables()
        self.ctxs = {}
        self.res = dict(evaluations=0, nontrivial=set(), counters={}, violations=[], samples=[],
                        sets={'rows_matched': set(), 'proc_reads': set(), 'attrs_not_compared': set()})
        self.viol = {}
        self.rng = rng_for(pid, spec.get('kind'), spec.get('seed'), spec.get('shard'))

    def ctx(self, key):
        if key not in self.ctxs:
            self.ctxs[key] = self.scen.Ctx(*key)
        return self.ctxs[key]

    def bump(self, k, n=1):
        c = self.res['counters']
        c[k] = c.get(k, 0) + n

    def report(self, key, desc, replay):
        if key not in self.viol:
            self.viol[key] = dict(key=key, desc=desc, replay=replay, count=0)
        self.viol[key]['count'] += 1

    # ------------------------------------------------------------------ concrete end-to-end decode of the emulator
    def emu_decode(self, cpu, kind, w, proxy_log=None):
        from armulator.armv6.arm_exceptions import UndefinedInstructionException
        cpu.opcode = w
        cpu.opcode_len = 16 if kind == 't16' else 32
        proc = cpu if proxy_log is None else self.DC.Recorder(cpu, proxy_log)
        try:
            cls = cpu.decode_instruction(w)
            if cls is None:
                return 'UNDEFINED', None
            obj = cls.from_bitarray(w, proc)
            if obj is None:
                return 'UNPREDICTABLE', None
            return 'INSTR:' + self.cmap.get(type(obj).__name__, type(obj).__name__), obj
        except UndefinedInstructionException:
            return 'UNDEFINED', None
        except NotImplementedError:
            return 'NOTIMPL', None
        except Exception as ex:
            sig = exc_signature(ex)
            return 'HOST:%s@%s' % (sig[0], sig[2]), None

    def setup(self, kind, itpos, rng, ctxkey=None):
        ctxkey = ctxkey or rng.choice([('v6-pmsa-sec', 'off'), ('v7-pmsa-r', 'off'), ('v7-vmsa-sec', 'off'), ('v5-pmsa', 'off'),
                                        ('v7-vmsa-virt', 'off'), ('v4-pmsa', 'off')])
        ctx = self.ctx(ctxkey)
        ns = rng.randrange(2) if ctx.cfg['have_security_ext'] else 0
        desc = self.scen.prepare(ctx, rng, kind, 0, mode=rng.choice(ctx.legal_modes(ns)), itpos=itpos, ns=ns)
        return ctx, desc

    def refctx(self, ctx, kind, itpos):
        from vf.ref.spec import Ctx
        cpu = ctx.cpu
        return Ctx(C=cpu.registers.cpsr.c, in_it=itpos != 'out', last_it=itpos == 'last', arch=ctx.cfg['arch_version'],
                   iset='arm' if kind == 'arm' else 'thumb')

    def prime_other_set(self, cpu, kind, w):
        """decode the same NUMBER first in the other instruction set on the same processor object: what the decoder
        then says about the word in this instruction set must not depend on that history"""
        r = cpu.registers
        t, it, olen = r.cpsr.t, r.cpsr.it, cpu.opcode_len
        try:
            r.cpsr.it = 0
            r.cpsr.t = 1 if kind == 'arm' else 0
            cpu.opcode = w
            cpu.opcode_len = 32 if kind != 'arm' or (w >> 27) in (0b11101, 0b11110, 0b11111) else 16
            try:
                cls = cpu.decode_instruction(w & 0xFFFF if cpu.opcode_len == 16 else w)
                if cls is not None:
                    cls.from_bitarray(w & 0xFFFF if cpu.opcode_len == 16 else w, cpu)
            except Exception:      # noqa: the other set's verdict on this number is not the subject here
                pass
        finally:
            r.cpsr.t = t
            r.cpsr.it = it
            cpu.opcode_len = olen
        self.bump('words_primed_in_the_other_instruction_set')

    def judge_word(self, kind, w, itpos='out', tag='', check_state=False, prime=False, reuse=None):
        """full comparison of one concrete word.  Returns 'ok' | 'skip-unpredictable' | 'violation'.
        reuse = (ctx, desc) of an earlier setup(): decode does not depend on anything a step-less decode could change"""
        rng = self.rng
        ctx, desc = reuse if reuse is not None else self.setup(kind, itpos, rng)
        cpu = ctx.cpu
        if prime:
            self.prime_other_set(cpu, kind, w)
        table = self.tables[kind]
        rk, row, ops = table.decode(w, self.refctx(ctx, kind, itpos))
        if row is not None and row.name == 'subs_pc_lr_thumb_t1' and cpu.registers.cpsr.m == 0b11010:
            rk = 'UNDEFINED'       # SUBS PC, LR, #imm8 (imm8 != 0) is UNDEFINED in Hyp mode (B9.3.20); imm8 == 0 is ERET
        log = set()
        eo, obj = self.emu_decode(cpu, kind, w, proxy_log=log)
        self.res['evaluations'] += 1
        self.res['sets']['proc_reads'].update(log)
        rname = row.name if row is not None else '<none>'
        self.res['sets']['rows_matched'].add(rname)
        word = ('%#06x' if kind == 't16' else '%#010x') % w
        rp = dict(kind=kind, word=word, itpos=itpos, ctx=list(desc['ctx']), cpsr=desc['cpsr'])
        if eo.startswith('HOST:'):
            self.report('%s|host-error-in-decode|%s|%s' % (self.pid, rname, eo[5:]), 'decoding %s: %s' % (word, eo), rp)
            return 'violation'
        bad_reads = {r for r in log if r not in self.DC.ALLOWED_READS}
        if bad_reads:
            self.report('%s|decode-reads-state|%s|%s' % (self.pid, rname, ','.join(sorted(bad_reads))[:60]),
                        'from_bitarray of %s read %s' % (word, sorted(bad_reads)), rp)
        if rk == 'UNPREDICTABLE':
            self.bump('words_unpredictable_by_reference')
            return 'skip-unpredictable'
        if rk == 'UNDEFINED':
            self.bump('words_undefined_by_reference')
            if eo in ('UNDEFINED', 'UNPREDICTABLE') or eo.startswith('INSTR:udf_'):
                return 'ok'
            self.report('%s|undefined-word-decoded|emu=%s|ref=UNDEFINED(%s)' % (self.pid, eo, rname),
                        '%s is UNDEFINED (%s) but the emulator gives %s' % (word, rname, eo), rp)
            return 'violation'
        if rk == 'OPTIONAL':
            self.bump('words_optional_by_reference')
            if eo in ('UNDEFINED', 'UNPREDICTABLE', 'NOTIMPL'):
                return 'ok'
            self.report('%s|unimplemented-extension-decoded|emu=%s|ref=%s' % (self.pid, eo, rname),
                        '%s belongs to %s (not implemented) but the emulator gives %s' % (word, rname, eo), rp)
            return 'violation'
        if rk == 'UNALLOC_HINT':
            self.bump('words_unallocated_hint')
            if eo in ('UNDEFINED', 'UNPREDICTABLE', 'NOTIMPL') or eo.startswith(('INSTR:nop_', 'INSTR:pld_')):
                return 'ok'
            self.report('%s|hint-decoded-as|emu=%s' % (self.pid, eo), '%s is an unallocated hint, emulator gives %s' % (word, eo), rp)
            return 'violation'
        # INSTR
        if eo != 'INSTR:' + rname:
            what = 'defined-instruction-treated-as-unpredictable' if eo == 'UNPREDICTABLE' else 'class'
            self.report('%s|%s|emu=%s|ref=%s' % (self.pid, what, eo, rname),
                        '%s is %s %s, the emulator gives %s' % (word, rname, ops, eo), rp)
            return 'violation'
        got = {k: self.DC.norm(v) for k, v in vars(obj).items() if k != 'instruction'}
        common = set(got) & set(ops)
        for k in common:
            if ops[k] is None:
                continue
            if got[k] != ops[k]:
                self.report('%s|operand|%s|%s' % (self.pid, rname, k),
                            '%s (%s): operand %s is %r, the encoding gives %r; all: emu %s ref %s' % (
                                word, rname, k, got[k], ops[k], got, ops), rp)
                return 'violation'
        for k in set(got) ^ set(ops):
            self.res['sets']['attrs_not_compared'].add('%s.%s' % (rname.rsplit('_', 1)[0], k))
        self.res['nontrivial'].add('%s|%s|%s|%s' % (kind, rname, tag, itpos))
        self.bump('operand_sets_compared')
        if check_state:
            # same word, different machine state (same C flag, IT position, instruction set): operands must be equal
            c = cpu.registers.cpsr.c
            m0 = cpu.registers.cpsr.m
            ctx2, d2 = self.setup(kind, itpos, rng, ctxkey=(ctx.cfgname, ctx.prot))
            ctx2.cpu.registers.cpsr.c = c
            if (m0 == 0b11010) != (ctx2.cpu.registers.cpsr.m == 0b11010):
                ctx2.cpu.registers.cpsr.m = m0            # being in Hyp mode is an architectural input of some decodes (SUBS PC,LR)
                ctx2.cpu.registers.scr.ns = 1 if m0 == 0b11010 else ctx2.cpu.registers.scr.ns
            eo2, obj2 = self.emu_decode(ctx2.cpu, kind, w)
            self.bump('state_independence_pairs')
            got2 = {k: self.DC.norm(v) for k, v in vars(obj2).items() if k != 'instruction'} if obj2 is not None else None
            if eo2 != eo or got2 != got:
                self.report('%s|decode-depends-on-state|%s' % (self.pid, rname), '%s decodes to %s %s and to %s %s under two '
                            'states that differ only in registers/mode/memory' % (word, eo, got, eo2, got2), rp)
                return 'violation'
        if len(self.res['samples']) < 3 and rng.random() < 0.002:
            self.res['samples'].append(dict(rp, row=rname, operands={k: str(v) for k, v in ops.items()}))
        return 'ok'


def run_product(mon, kind, spec):
    """exhaustive class selection over the whole word space of one instruction set + samples of every product path"""
    DC = mon.DC
    dec, nbits, pre = real_decoders()[kind]
    table = mon.tables[kind]
    leaves, info = DC.enumerate_product(dec, table, nbits, spec['seed'], pre)
    if spec['shard'] == 0:
        for k, v in info.items():
            mon.res['counters']['%s_%s' % (kind, k)] = int(v)
    rng = mon.rng
    for pi, (m, v, ds, o, wit) in enumerate(leaves):
        if o.startswith('#'):
            continue
        if pi % spec['of'] != spec['shard']:
            continue
        mon.bump('product_paths_visited_' + kind)
        if '||' not in o:
            mon.report('%s|tracer-opaque|%s' % (mon.pid, o), 'product path could not be traced: %s word %#x' % (o, wit), dict(kind=kind, word='%#x' % wit))
            continue
        realo, ref = o.split('||')
        refname, rkind, sb = ref.split('|')
        why = DC.judge_class(realo, refname, rkind, sb == '1', mon.cmap)
        words = DC.sample_words(m, v, ds, nbits, rng, spec['per_path'])
        if why is not None:
            mon.bump('product_paths_class_disagree')
        itposs = ['out'] if kind == 'arm' else ['out', 'mid', 'last']
        verdicts = set()
        for j, w in enumerate(words):
            verdicts.add(mon.judge_word(kind, w, itpos=itposs[j % len(itposs)], tag='p%d' % pi, check_state=(j % 8 == 0)))
        if why is not None and 'violation' not in verdicts:
            # the decoder trees disagree on class identity, but end-to-end every sampled word of the path is
            # UNPREDICTABLE / UNDEFINED either way: class identity is then not constrained
            mon.bump('product_paths_class_disagree_but_unconstrained')


REG4 = [0, 1, 13, 14, 15]
REG3 = [0, 7]


def field_candidates(ch, k, row):
    if ch == 'c' and row.has_cond:
        return [14]
    if k == 4 and ch in 'ndmstauhl':
        return REG4
    if k == 3 and ch in 'ndmt':
        return REG3
    if k <= 3:
        return list(range(1 << k))
    top = (1 << k) - 1
    extra = {0x10, 0x11, 0x12, 0x13, 0x16, 0x17, 0x1A, 0x1B, 0x1F} if k == 5 else set()      # 5-bit fields are often mode numbers
    return sorted(({0, 1, 2, 3, 4, 5, 8, top, top - 1, 1 << (k - 1), (1 << (k - 1)) - 1, (1 << (k - 1)) + 1} | extra) & set(range(top + 1)))


def field_products(mon, spec):
    """boundary-value sweep from the encoding side: for every reference row, the cross product of ALL values of its narrow
    fields (<= 3 bits: shift types, P/U/W, S, imm2/imm3 pieces, sz, ...), corner values of its wide fields and the
    registers {0, 1, SP, LR, PC}; capped per row by random sub-sampling.  Guards of the kind `field > 3`, `Rd == 13 and
    shift != LSL`, `wback and n == t` in the emulator's per-instruction decode are exercised on both sides of their bounds."""
    import itertools
    rng = mon.rng
    kind = spec['set']
    table = mon.tables[kind]
    rows = [r for r in table.rows if r.kind == 'INSTR']
    its = ['out'] if kind == 'arm' else ['out', 'mid', 'last']
    for ri, row in enumerate(rows):
        if ri % spec['of'] != spec['shard']:
            continue
        letters = list(row.fields)
        cands = [field_candidates(ch, len(row.fields[ch]), row) for ch in letters]
        total = 1
        for c in cands:
            total *= len(c)
        cap = spec['cap']
        if total <= cap:
            combos = itertools.product(*cands)
        else:
            combos = (tuple(rng.choice(c) for c in cands) for _ in range(cap))
        free = ~(row.mask | row.sb_mask) & ((1 << row.width) - 1)
        for bits_ in row.fields.values():
            for b in bits_:
                free &= ~(1 << b)
        reuse = None
        itpos = its[0]
        n = 0
        for combo in combos:
            w = row.value | row.sb_value
            for ch, v in zip(letters, combo):
                bits_ = row.fields[ch]
                kk = len(bits_)
                for i, b in enumerate(bits_):
                    if (v >> (kk - 1 - i)) & 1:
                        w |= 1 << b
            w |= rng.getrandbits(row.width) & free
            if n % 60 == 0:
                # one prepared processor state per batch of words (the processor objects are shared between set-ups, so only
                # the most recent set-up is valid)
                itpos = its[(n // 60) % len(its)]
                reuse = mon.setup(kind, itpos, rng)
            n += 1
            mon.bump('field_product_words')
            mon.judge_word(kind, w, itpos=itpos, tag='fp', reuse=reuse)
        mon.bump('field_product_rows')


def decode_through_steps(mon, spec):
    """the decode a real step performs: the same word is executed twice on the SAME processor object, from states that
    differ in the carry flag (and registers); the opcode object the second step executed must carry the operands the
    encoding gives under the second state - a decode result remembered from the first step would not"""
    from vf import lockstep
    from vf.ref.spec import Ctx
    rng = mon.rng
    kind = spec['set']
    table = mon.tables[kind]
    rows = [r for r in table.rows if r.kind == 'INSTR']
    scen = mon.scen
    ctxkey = [('v7-pmsa-r', 'off'), ('v6-pmsa-sec', 'off'), ('v7-vmsa-virt', 'off')][spec['shard'] % 3]
    ctx = mon.ctx(ctxkey)
    for i in range(spec['n']):
        row = rows[rng.randrange(len(rows))]
        w = lockstep.gen_word(table, row, rng, tries=6)
        if w is None:
            continue
        itpos = 'out' if kind == 'arm' else rng.choice(['out', 'last'])
        c0 = rng.randrange(2)
        mode = rng.choice(ctx.legal_modes(0))
        scen.prepare(ctx, rng, kind, w, mode=mode, itpos=itpos, nzcv=(rng.getrandbits(4) & 0b1101) | (c0 << 1))
        scen.step(ctx.cpu)
        desc = scen.prepare(ctx, rng, kind, w, mode=mode, itpos=itpos, nzcv=(rng.getrandbits(4) & 0b1101) | ((1 - c0) << 1),
                            e=rng.randrange(2))        # data endianness either way: the word that reaches the decoder is the word in memory
        cpu = ctx.cpu
        cpu.executed_opcode = None
        rctx = Ctx(C=1 - c0, in_it=itpos != 'out', last_it=itpos == 'last', arch=ctx.cfg['arch_version'], iset='arm' if kind == 'arm' else 'thumb')
        rk, rrow, ops = table.decode(w, rctx)
        eo_f, obj_f = mon.emu_decode(cpu, kind, w)           # what a direct decode says in this very state
        k_, sig = scen.step(cpu)
        obj = cpu.executed_opcode
        mon.res['evaluations'] += 1
        mon.bump('words_decoded_through_two_steps')
        if rk != 'INSTR' or obj is None or k_ == 'host':
            continue
        rname = rrow.name
        word = ('%#06x' if kind == 't16' else '%#010x') % w
        rp = dict(kind=kind, word=word, itpos=itpos, ctx=list(desc['ctx']), cpsr=desc['cpsr'], first_step_carry=c0)
        eo = 'INSTR:' + mon.cmap.get(type(obj).__name__, type(obj).__name__)
        if obj_f is not None and type(obj_f) is not type(obj):
            # fetched and decoded by a real step, the word became ANOTHER instruction than a direct decode of the same word
            # in the very same state gives: decode depends on the word (and the IT position / carry flag) only
            mon.report('%s|stepped-class-differs-from-direct-decode|%s' % (mon.pid, rname),
                       '%s (%s): the step executed %s, a direct decode in the same state gives %s (CPSR %s)' % (
                           word, rname, type(obj).__name__, type(obj_f).__name__, desc['cpsr']), rp)
            continue
        if eo != 'INSTR:' + rname:
            continue            # class selection is judged by the product enumeration
        got = {k2: mon.DC.norm(v) for k2, v in vars(obj).items() if k2 != 'instruction'}
        direct = {k2: mon.DC.norm(v) for k2, v in vars(obj_f).items() if k2 != 'instruction'} if obj_f is not None else None
        bad = None
        if direct is not None and type(obj_f) is type(obj) and direct != got:
            bad = sorted(k2 for k2 in got if got[k2] != direct.get(k2))[0]
            exp = direct[bad] if bad in direct else None
        else:
            # same as the direct decode: any disagreement with the encoding is then the ordinary operand check's business
            # (product / rows / fields shards, known findings keyed there); only a difference that the direct decode does
            # not share is reported here
            for k2 in set(got) & set(ops):
                if ops[k2] is not None and got[k2] != ops[k2] and (direct is None or direct.get(k2) == ops[k2]):
                    bad, exp = k2, ops[k2]
                    break
        if bad is not None:
            mon.report('%s|operand-after-re-execution|%s|%s' % (mon.pid, rname, bad),
                       '%s (%s) executed twice on one processor, C = %d then %d: the second step executed operand %s = %r, a direct '
                       'decode in the second state / the encoding give %r' % (word, rname, c0, 1 - c0, bad, got[bad], exp), rp)
        else:
            mon.bump('re_executed_operand_sets_compared')
            mon.res['nontrivial'].add('%s|%s|steps' % (kind, rname))


def run_shard_common(pid, spec, kinds):
    mon = Mon(pid, spec)
    k = spec['kind']
    if k == 'product':
        run_product(mon, spec['set'], spec)
    elif k == 't16all':
        for w in range(spec['lo'], spec['hi']):
            if (w >> 11) in (0b11101, 0b11110, 0b11111):
                continue
            for itpos in ('out', 'mid', 'last'):
                mon.judge_word('t16', w, itpos=itpos, tag='w%03x' % (w >> 4))
        mon.bump('t16_words_covered', spec['hi'] - spec['lo'])
    elif k == 'fetchlen':
        fetch_length(mon, spec)
    elif k == 'random':
        rng = mon.rng
        for i in range(spec['n']):
            kind = spec['set']
            if kind == 'arm':
                w = rng.getrandbits(32)
                if i % 3 == 0:
                    w |= 0xE8000000          # numbers that are also Thumb-32 words
            else:
                w = (rng.choice([0b11101, 0b11110, 0b11111]) << 27) | rng.getrandbits(27)
            mon.judge_word(kind, w, itpos='out' if kind == 'arm' else rng.choice(['out', 'mid', 'last']), tag='r%d' % (w >> 24),
                           check_state=(i % 16 == 0), prime=(i % 3 == 0))
    elif k == 'fields':
        field_products(mon, spec)
    elif k == 'steps':
        decode_through_steps(mon, spec)
    elif k == 'rows':
        # words built from the reference rows with the lock-step generator (register pools, structured register lists,
        # corner immediates, should-be bits honoured) and words one fixed bit away from a word of another row
        from vf import lockstep
        rng = mon.rng
        kind = spec['set']
        table = mon.tables[kind]
        rows = [r for r in table.rows if r.kind == 'INSTR']
        its = ['out'] if kind == 'arm' else ['out', 'mid', 'last']
        for ri, row in enumerate(rows):
            if ri % spec['of'] != spec['shard']:
                continue
            for j in range(spec['per_row']):
                w = lockstep.gen_word(table, row, rng, tries=8)
                if w is None:
                    mon.bump('row_word_generation_failed')
                    continue
                mon.bump('row_words')
                mon.judge_word(kind, w, itpos=its[j % len(its)], tag='row', prime=(j % 4 == 0))
        wanted = {id(r) for r in rows}
        for w, row in lockstep.neighbour_words(table, wanted, rng, max(300, len(rows) * spec['per_row'] // (3 * spec['of']))):
            mon.bump('alias_neighbour_words')
            mon.judge_word(kind, w, itpos=rng.choice(its), tag='nb')
    mon.res['violations'] = list(mon.viol.values())
    return mon.res


def fetch_length(mon, spec):
    """whether a halfword starts a 32-bit instruction is decided from its top five bits only"""
    from vf import machine as M
    ctx = mon.ctx(('v7-pmsa-r', 'off'))
    rng = mon.rng
    for hw1 in range(spec['lo'], spec['hi']):
        cpu = ctx.fresh()
        mon.scen.prepare(ctx, rng, 't16', hw1, mode='svc', itpos='out')
        hw2 = rng.getrandbits(16)
        M.poke(cpu, mon.scen.CODE + 2, hw2.to_bytes(2, 'little'))
        got = cpu.fetch_instruction()
        exp32 = (hw1 >> 11) in (0b11101, 0b11110, 0b11111)
        mon.res['evaluations'] += 1
        mon.bump('fetch_length_checked')
        ok = (cpu.opcode_len == (32 if exp32 else 16)) and got == (((hw1 << 16) | hw2) if exp32 else hw1)
        if not ok:
            mon.report('%s|fetch-length|top5=%s' % (mon.pid, format(hw1 >> 11, '05b')),
                       'first halfword %#06x: fetched %#x with length %d' % (hw1, got, cpu.opcode_len), dict(hw1=hw1))


def replay_common(pid, data):
    rp = data['replay']
    mon = Mon(pid, dict(kind='replay', seed=0, shard=0))
    if 'word' in rp and 'kind' in rp:
        for _ in range(4):
            mon.judge_word(rp['kind'], int(rp['word'], 16), itpos=rp.get('itpos', 'out'), check_state=True)
    return dict(evaluations=4, violations=[v for v in mon.viol.values() if v['key'] == data['key']])
