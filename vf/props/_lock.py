"""Common body of the lock-step properties (C01, C02, C03, C04, C08, C09, C12 ...): words generated from
the reference-table rows of a family, stepped on the real CPU and on the reference from the same snapshot."""
import random
from vf.common import use_repo, rng_for
use_repo()

SHARD_TIMEOUT = {'quick': 900, 'thorough': 7200}
CTXS_DEFAULT = [('v7-pmsa-r', 'off'), ('v6-pmsa-sec', 'off'), ('v7-vmsa-sec', 'off'), ('v5-pmsa', 'off'), ('v4-pmsa', 'off'),
                ('v7-vmsa-virt', 'off')]


# instructions that name modes / banks / saved state: control-register settings matter most here, and they get a larger share
SYSTEM_SEMS = ('srs', 'rfe', 'cps', 'msr_sys', 'mrs', 'subs_pc_lr', 'subs_pc_lr_thumb', 'eret', 'ldm_user', 'stm_user', 'ldm_eret', 'smc',
               'svc', 'wfe', 'wfi', 'cp')
CODE_ADDRS_ARM = [0x10004, 0x10008, 0x1000C, 0x0, 0x4, 0x8, 0xFFFFF000, 0xFFFFFFF0, 0xFFFFFFF8, 0xFFFFFFFC, 0x7FF8, 0x11FF8]
CODE_ADDRS_THUMB = [0x10002, 0x10006, 0x1000A, 0x10004, 0x0, 0x2, 0x4, 0x6, 0xFFFFF002, 0xFFFFFFF0, 0xFFFFFFF6, 0xFFFFFFFA,
                    0xFFFFFFFC, 0xFFFFFFFE, 0x7FFA, 0x11FFA]


def family_rows(prefixes):
    from vf.ref.step import tables
    out = []
    for kind, table in tables().items():
        for row in table.rows:
            if row.kind == 'INSTR' and row.sem and (row.sem.split(':')[0] in prefixes or '=' + row.name in prefixes):
                out.append((kind, row))
    return out


def plan_rows(pid, prefixes, tier, seed, per_row_quick, per_row_thorough, nshards_quick=16, nshards_thorough=64):
    n = nshards_quick if tier == 'quick' else nshards_thorough
    per = per_row_quick if tier == 'quick' else per_row_thorough
    return [dict(kind='rows', seed=seed, shard=i, of=n, per_row=per) for i in range(n)]


BOUNDARY_TARGETS = [0xFFFFFFFC, 0xFFFFFFFC, 0xFFFFFFFC, 0xFFFFFFF8, 0xFFFFFFF8, 0xFFFFFFFE, 0xFFFFFFFF, 0xFFFFFFFD, 0x0, 0x4, 0x7FFC,
                    0x7FFE, 0x7FF8, 0x7FFF, 0x11FFC, 0x11FF8, 0x11FFE, 0xFFFFF000, 0xFFFC, 0xFFFFFFF4]


def solve_address(ctx, rng, desc, kind, w, prep_args, targets=None):
    """move the first data access of the prepared instruction onto a boundary (last word of the address space, end of a
    RAM device, address 0): one reference step tells where the access goes; the base register - or, for PC-relative
    (literal) forms, the placement of the instruction itself - is shifted by the difference.  Returns the new desc."""
    from vf import observe, scen
    from vf.ref import step as RS
    cpu = ctx.cpu
    verdict, ref, info = RS.step(observe.snapshot(cpu), ctx.cfg)
    tr = getattr(ref, 'translations', None)
    if verdict != 'ok' or not tr:
        return desc
    ops = info.get('ops') or {}
    delta = (rng.choice(targets or BOUNDARY_TARGETS) - tr[0][0]) & 0xFFFFFFFF
    n = ops.get('n')
    try:
        n = int(n) if n is not None else None
    except (TypeError, ValueError):
        n = None
    rowname = info.get('row') or ''
    if n is None and rowname.startswith(('push', 'pop', 'srs', 'rfe')) and 'n' not in ops:
        n = 13 if rowname.startswith(('push', 'pop')) else None
        if n is None:
            return desc
    if n is not None and n != 15:
        if n in (ops.get('m'), ops.get('t'), ops.get('t2')) or (n == 13 and kind != 'arm' and delta % 4):
            return desc
        v = (cpu.registers.get(n) + delta) & 0xFFFFFFFF
        cpu.registers.set(n, v)
        desc['regs'][n] = '%#x' % v
        desc['address_solved'] = 'base'
        return desc
    if delta % 4:
        return desc
    code = (int(desc.get('code', '0x10000'), 16) + delta) & 0xFFFFFFFF
    regs = [int(x, 16) for x in desc['regs']]
    kw = dict(prep_args)
    kw['code'] = code
    kw['regs'] = regs
    d2 = scen.prepare(ctx, rng, kind, w, **kw)
    d2['address_solved'] = 'code'
    return d2


def observe_diff(a, b):
    from vf import observe
    return observe.diff(a, b)


def run_rows(pid, spec, prefixes, ctxs=CTXS_DEFAULT, regs_fn=None, prep_kw=None, after=None, keyfn=None, itpos_fn=None,
             solve_addr=0.0, fixed_fn=None, product_cap=None, pin_sp=False, host_only=False, solve_targets=None):
    from vf import lockstep, scen, machine as M
    from vf.ref.step import tables
    rng = rng_for(pid, 'rows', spec['seed'], spec['shard'])
    ls = lockstep.LockStep(pid, rng)
    rows = family_rows(prefixes)
    tabs = tables()

    def words():
        for ri, (kind, row) in enumerate(rows):
            if ri % spec['of'] != spec['shard']:
                continue
            ls.bump('rows_visited')
            for j in range(spec['per_row'] * (3 if (row.sem or '').split(':')[0] in SYSTEM_SEMS else 1)):
                fx = fixed_fn(row, rng) if fixed_fn else None
                if fixed_fn and fx is None:
                    break                                  # this row cannot take the pinned operand
                w = lockstep.gen_word(tabs[kind], row, rng, fixed=fx, tries=8 if fx else 60)
                if w is None:
                    ls.bump('word_generation_failed')
                    continue
                yield kind, row, w
        if fixed_fn:
            return
        # cross products of the narrow non-register fields (shift types x P/U/W x S x small immediates ...: every value) and
        # corner values of the wide ones, registers from the usual pool: special cases in the execute code keyed on two or
        # three fields at once (imm == 0 with one shift type, msb < lsb, rotation x width, wback with a particular index mode)
        import itertools
        from vf.props import _decode as D
        for ri, (kind, row) in enumerate(rows):
            if ri % spec['of'] != spec['shard']:
                continue
            letters = [ch for ch in row.fields if not ((len(row.fields[ch]) == 4 and ch in 'ndmstauhl') or
                                                      (len(row.fields[ch]) == 3 and ch in 'ndmt') or (ch == 'c' and row.has_cond))]
            cands = [D.field_candidates(ch, len(row.fields[ch]), row) for ch in letters]
            total = 1
            for c in cands:
                total *= len(c)
            cap = product_cap or max(40, spec['per_row'] // 2)
            combos = list(itertools.product(*cands)) if total <= cap else [tuple(rng.choice(c) for c in cands) for _ in range(cap)]
            regletters = [ch for ch in row.fields if len(row.fields[ch]) == 4 and ch in 'ndmstauhl']
            if 't' in row.fields and len(row.fields['t']) == 4:
                # the transferred register being the PC (a store of the PC, a load into it), a dozen times per row
                for combo in (combos * 12)[:12]:
                    w = lockstep.gen_word(tabs[kind], row, rng, tries=1, fixed=dict(zip(letters, combo), t=15))
                    if w is not None:
                        ls.bump('field_product_words_with_rt_pc')
                        yield kind, row, w
            for combo in combos:
                w = lockstep.gen_word(tabs[kind], row, rng, tries=1, fixed=dict(zip(letters, combo)))
                if w is None:
                    continue
                ls.bump('field_product_words')
                yield kind, row, w
                if pin_sp and total <= cap:
                    # the complete product once more with each register operand in turn being the SP (rules of the kind
                    # "Rd == SP allows LSL #0..3 only" sit on a register number AND an exact shift)
                    for ch in regletters:
                        w = lockstep.gen_word(tabs[kind], row, rng, tries=1, fixed=dict(zip(letters, combo), **{ch: 13}))
                        if w is not None:
                            ls.bump('field_product_words_with_sp')
                            yield kind, row, w
        # words next to an alias / special-case encoding of another row (all rows of the family, a share per shard)
        wanted = {}
        for kind, row in rows:
            wanted.setdefault(kind, set()).add(id(row))
        for kind, ids in wanted.items():
            attempts = max(200, (len(tabs[kind].rows) * spec['per_row'] // 3) // spec['of'])
            for w, row in lockstep.neighbour_words(tabs[kind], ids, rng, attempts):
                ls.bump('alias_neighbour_words')
                yield kind, row, w

    for kind, row, w in words():
        if host_only and rng.random() < 0.85:
            # most words drawn from a row with register constraints (Rt even, Rn != Rt ...) are UNPREDICTABLE and end at the
            # decoder; the budget goes to the ones that execute
            from vf.ref import spec as S_
            rk_ = tabs[kind].decode(w, S_.Ctx(C=0, in_it=False, last_it=False, arch=7, iset='arm' if kind == 'arm' else 'thumb'))[0]
            if rk_ == 'UNPREDICTABLE':
                ls.bump('row_words_unpredictable_skipped')
                continue
        ctxkey = ctxs[rng.randrange(len(ctxs))]
        ctx = ls.ctx(ctxkey)
        ns = rng.randrange(2) if ctx.cfg['have_security_ext'] else 0
        lm = ctx.legal_modes(ns)
        mode = rng.choice(lm + [m for m in lm if m in ('mon', 'hyp')] * 2)       # Monitor and Hyp mode three times as often
        itpos = 'out' if kind == 'arm' else (itpos_fn(rng) if itpos_fn else rng.choice(['out', 'out', 'mid', 'last']))
        regs = regs_fn(rng) if regs_fn else [M.rand32(rng) for _ in range(15)]
        kw = dict(prep_kw(rng) if prep_kw else {})
        kw.setdefault('e', 1 if rng.random() < 0.25 else 0)       # CPSR.E: every family that touches memory sees both
        if 'code' not in kw and rng.random() < 0.35:
            # instruction placement: halfword-but-not-word aligned Thumb addresses, the first words of the address space and
            # the last ones (PC-relative forms see Align(PC,4), wrap-around of PC + offset, link values)
            kw['code'] = rng.choice(CODE_ADDRS_THUMB if kind != 'arm' else CODE_ADDRS_ARM)
        if kind == 'arm' and 'code' in kw:
            kw['code'] &= ~3
        if kind == 'arm' and 'sp_low' not in kw and rng.random() < (0.6 if row.name.startswith(('push', 'pop')) else 0.12):
            kw['sp_low'] = rng.randrange(1, 4)                    # ARM state: the SP may hold any value (PUSH / POP use it as base)
        if kind in ('arm', 't32') and rng.random() < 0.08 and (kind == 't32' or (w >> 27) in (0b11101, 0b11110, 0b11111)):
            # the same NUMBER executed first in the other instruction set on this processor object (decode history)
            scen.prepare(ctx, rng, 't32' if kind == 'arm' else 'arm', w, mode=mode, itpos='out', ns=ns)
            scen.step(ctx.cpu)
            ls.bump('primed_in_other_instruction_set')
        desc = scen.prepare(ctx, rng, kind, w, mode=mode, itpos=itpos, ns=ns, regs=regs, **kw)
        if solve_addr and rng.random() < solve_addr:
            kw2 = dict(kw, mode=mode, itpos=itpos, ns=ns)
            desc = solve_address(ctx, rng, desc, kind, w, kw2, targets=solve_targets)
            ls.bump('addresses_solved_' + desc.get('address_solved', 'not'))
        if rng.random() < (0.6 if (row.sem or '').split(':')[0] in SYSTEM_SEMS else 0.3):
            control_noise(ctx, rng, desc)
        if rng.random() < 0.4:
            fault_history(ctx, rng, desc)
        if mode == 'mon' and rng.random() < 0.45:
            ctx.cpu.registers.scr.ns = 1      # Monitor mode with SCR.NS = 1 (as set before a return to Non-secure state)
            desc['ns'] = 1
            desc['mon_ns1'] = True
            if rng.random() < 0.7:
                # ... and the SPSR may then name any mode that is legal in Non-secure state, Hyp included
                r_ = ctx.cpu.registers
                tm = 'hyp' if (ctx.cfg['have_virt_ext'] and rng.random() < 0.4) else rng.choice(ctx.legal_modes(1))
                r_.spsr_mon = (r_.spsr_mon & ~0x1F) | scen.mode_word(tm)
        if after:
            after(ctx, rng, desc)
        # hooks may have moved registers: the description (= replay record) shows the state actually stepped
        r_ = ctx.cpu.registers
        desc['regs'] = ['%#x' % r_.get(n_) for n_ in range(15)]
        desc['cpsr'] = '%#010x' % r_.cpsr.value
        ls.res['sets']['contexts'].add('%s/%s/%s' % (ctxkey[0], mode, kind))
        if host_only:
            # C18: the same row-generated words, operands and solved addresses, judged for ONE thing - whether anything but an
            # architectural outcome or the documented not-implemented error leaves emulate_cycle()
            verdict, info, diffs, pre, post, ref = ls.run(ctx, desc, 'it-' + itpos)
            ls.bump('row_steps_' + str(info.get('emu')))
            if desc.get('stage2') and (post['cpsr'] & 0x1F) == 0x1A and 'hdfar' in observe_diff(pre, post):
                ls.bump('row_steps_stage2_abort_taken_to_hyp')
            if post != pre:
                ls.res['nontrivial'].add('%s|%s|%s' % (row.name, itpos, ctx.cfgname))
            if info.get('emu') == 'host':
                sig = info.get('emu_sig') or ('?', '?', '?')
                ls.report('%s|host-error|%s|%s|row:%s' % (pid, sig[0], sig[2], row.name),
                          dict(desc, error='%s in %s:%s' % (sig[0], sig[1], sig[2]), reference_verdict=verdict), desc, pre=pre)
            continue
        ls.judge(ctx, desc, 'it-' + itpos, keyfn=keyfn)
    ls.res['sets']['control_bit_values_seen'] = lockstep.census_sets(ls)
    ls.res['violations'] = list(ls.viol.values())
    return ls.res


def control_noise(ctx, rng, desc):
    """exception-entry controls away from their reset values (vector base, handler instruction set and endianness, mask
    rules, abort routing): what an instruction-caused exception (UNDEFINED, SVC, SMC, abort, Hyp trap) does under them"""
    r = ctx.cpu.registers
    cfg = ctx.cfg
    r.sctlr.v = rng.randrange(2)
    r.sctlr.te = rng.randrange(2) if cfg['arch_version'] >= 6 else 0
    r.sctlr.ee = rng.randrange(2)
    # bits without architectural effect on the modelled behaviour (cache / branch-prediction enables, RR, FI, WXN / UWXN:
    # only instruction-fetch permissions) - they must not influence anything
    for bit in (2, 11, 12, 14, 19, 20, 21):
        if rng.random() < 0.3:
            r.sctlr.value |= 1 << bit
    r.vbar.value = rng.choice([0, 0x20, 0x7000, 0xFFFFFFE0, 0x11000])
    if cfg['have_security_ext']:
        r.mvbar = rng.choice([0, 0x40, 0xFFFFFFE0, 0x6000])
        r.scr.aw = rng.randrange(2)
        r.scr.fw = rng.randrange(2)
        r.scr.ea = rng.randrange(2)
        if rng.random() < 0.5 and not (desc.get('ns') == 1):
            r.nsacr.value |= 1 << 19              # NSACR.RFR: restricts FIQ mode for Non-secure state only
    if cfg['have_virt_ext']:
        r.hvbar = rng.choice([0, 0x60, 0xFFFFFFE0, 0x5000])
        r.hsctlr.te = rng.randrange(2)
        r.hsctlr.ee = rng.randrange(2)
        # HCR.TGE = 1 only where the architecture defines it: Non-secure User mode, MMU off (Non-secure PL1 modes are
        # UNPREDICTABLE under TGE, and in Secure state the pseudocode's use of TGE for the fault syndrome is a known quirk)
        r.hcr.tge = 1 if (rng.random() < 0.3 and not r.sctlr.m and desc.get('ns') == 1 and desc.get('mode') == 'usr') else 0
        # the hypervisor's instruction traps (WFI / WFE / SMC / BXJ): an instruction they do not name is not affected by them
        r.hcr.twi, r.hcr.twe, r.hcr.tsc = (1 if rng.random() < 0.3 else 0 for _ in range(3))
        r.hstr.tjdbx = 1 if rng.random() < 0.3 else 0
    if rng.random() < 0.3:
        # coprocessor access controls at arbitrary values: they gate coprocessor instructions and nothing else
        r.cpacr.value = rng.getrandbits(32) & 0x0FFFFFFF
        if cfg['have_security_ext']:
            r.nsacr.value = (r.nsacr.value & ~0x3FFF) | rng.getrandbits(14)
        if cfg['have_virt_ext']:
            r.hcptr.value = rng.getrandbits(14) | (rng.getrandbits(1) << 15) | (rng.getrandbits(1) << 20)
    if cfg['arch_version'] >= 6 and rng.random() < 0.15:
        r.sctlr.a = 1                              # strict alignment checking (a family's own hook may still override it)
    desc['control_noise'] = dict(sctlr='%#x' % r.sctlr.value, scr='%#x' % r.scr.value, vbar='%#x' % r.vbar.value,
                                 mvbar='%#x' % r.mvbar, hvbar='%#x' % r.hvbar, hsctlr='%#x' % r.hsctlr.value, hcr='%#x' % r.hcr.value)


def fault_history(ctx, rng, desc):
    """the fault status / address registers as an earlier abort on the same processor left them (status, domain, WnR; both
    address registers): what the next abort reports must not depend on them"""
    r = ctx.cpu.registers
    fs = rng.choice([0b00001, 0b01101, 0b00101, 0b00111, 0b01001, 0b01011, 0b01111, 0b00011, 0b00110, 0b00010, 0b01000])
    r.dfsr.value = (rng.getrandbits(1) << 11) | ((fs >> 4) << 10) | (rng.getrandbits(4) << 4) | (fs & 0xF)
    r.dfar = rng.getrandbits(32)
    r.ifsr = rng.choice([0b00001, 0b01101, 0b00101, 0b00010])
    r.ifar = rng.getrandbits(32)
    desc['fault_history'] = dict(dfsr='%#x' % r.dfsr.value, dfar='%#x' % r.dfar, ifsr='%#x' % r.ifsr, ifar='%#x' % r.ifar)


def replay_rows(pid, data):
    from vf import lockstep, scen
    rp = data['replay']
    ls = lockstep.LockStep(pid, random.Random(0))
    ctx = ls.ctx(tuple(rp['ctx']))
    if rp.get('snapshot'):
        from vf import observe, machine as M
        M.activate(ctx.cpu)
        observe.restore(ctx.cpu, observe.unjson(rp['snapshot']))
        ls.judge(ctx, {k_: v for k_, v in rp.items() if k_ != 'snapshot'}, 'replay')
        return dict(evaluations=1, violations=list(ls.viol.values()))
    regs = [int(x, 16) for x in rp['regs']]
    scen.prepare(ctx, random.Random(1), rp['kind'], int(rp['word'], 16), mode=rp['mode'], ns=rp['ns'], regs=regs,
                 code=int(rp.get('code', '0x10000'), 16) if isinstance(rp.get('code'), str) else scen.CODE,
                 sp_low=int(rp['regs'][13], 16) & 3)
    ctx.cpu.registers.cpsr.value = int(rp['cpsr'], 16)
    r = ctx.cpu.registers
    for k_, v in list((rp.get('control_noise') or {}).items()) + list((rp.get('fault_history') or {}).items()):
        reg = getattr(r, k_)
        if hasattr(reg, 'value'):
            reg.value = int(v, 16)
        else:
            setattr(r, k_, int(v, 16))
    ls.judge(ctx, rp, 'replay')
    return dict(evaluations=1, violations=list(ls.viol.values()))


def finish_rows(agg, min_agree=2000):
    c = agg['counters']
    inc = []
    if c.get('ref_ok', 0) < min_agree:
        inc.append('too few steps judged by the reference (%d)' % c.get('ref_ok', 0))
    if c.get('word_generation_failed', 0) > c.get('ref_ok', 1):
        inc.append('word generation mostly failing')
    return inc
