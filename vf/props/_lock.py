"""Common body of the lock-step properties (C01, C02, C03, C04, C08, C09, C12 ...): words generated from
the reference-table rows of a family, stepped on the real CPU and on the reference from the same snapshot."""
import random
from vf.common import use_repo, rng_for
use_repo()

SHARD_TIMEOUT = {'quick': 900, 'thorough': 7200}
CTXS_DEFAULT = [('v7-pmsa-r', 'off'), ('v6-pmsa-sec', 'off'), ('v7-vmsa-sec', 'off'), ('v5-pmsa', 'off'), ('v4-pmsa', 'off'),
                ('v7-vmsa-virt', 'off')]


def family_rows(prefixes):
    from vf.ref.step import tables
    out = []
    for kind, table in tables().items():
        for row in table.rows:
            if row.kind == 'INSTR' and row.sem and row.sem.split(':')[0] in prefixes:
                out.append((kind, row))
    return out


def plan_rows(pid, prefixes, tier, seed, per_row_quick, per_row_thorough, nshards_quick=16, nshards_thorough=64):
    n = nshards_quick if tier == 'quick' else nshards_thorough
    per = per_row_quick if tier == 'quick' else per_row_thorough
    return [dict(kind='rows', seed=seed, shard=i, of=n, per_row=per) for i in range(n)]


def run_rows(pid, spec, prefixes, ctxs=CTXS_DEFAULT, regs_fn=None, prep_kw=None, after=None, keyfn=None, itpos_fn=None):
    from vf import lockstep, scen, machine as M
    from vf.ref.step import tables
    rng = rng_for(pid, 'rows', spec['seed'], spec['shard'])
    ls = lockstep.LockStep(pid, rng)
    rows = family_rows(prefixes)
    tabs = tables()

    def words():
        for ri, (kind, row) in enumerate(rows):
            if ri % spec['of'] != spec['shard']:
                continue
            ls.bump('rows_visited')
            for j in range(spec['per_row']):
                w = lockstep.gen_word(tabs[kind], row, rng)
                if w is None:
                    ls.bump('word_generation_failed')
                    continue
                yield kind, row, w
        # words next to an alias / special-case encoding of another row (all rows of the family, a share per shard)
        wanted = {}
        for kind, row in rows:
            wanted.setdefault(kind, set()).add(id(row))
        for kind, ids in wanted.items():
            attempts = max(200, (len(tabs[kind].rows) * spec['per_row'] // 3) // spec['of'])
            for w, row in lockstep.neighbour_words(tabs[kind], ids, rng, attempts):
                ls.bump('alias_neighbour_words')
                yield kind, row, w

    for kind, row, w in words():
        ctxkey = ctxs[rng.randrange(len(ctxs))]
        ctx = ls.ctx(ctxkey)
        ns = rng.randrange(2) if ctx.cfg['have_security_ext'] else 0
        mode = rng.choice(ctx.legal_modes(ns))
        itpos = 'out' if kind == 'arm' else (itpos_fn(rng) if itpos_fn else rng.choice(['out', 'out', 'mid', 'last']))
        regs = regs_fn(rng) if regs_fn else [M.rand32(rng) for _ in range(15)]
        kw = dict(prep_kw(rng) if prep_kw else {})
        kw.setdefault('e', 1 if rng.random() < 0.25 else 0)       # CPSR.E: every family that touches memory sees both
        desc = scen.prepare(ctx, rng, kind, w, mode=mode, itpos=itpos, ns=ns, regs=regs, **kw)
        if mode == 'mon' and rng.random() < 0.25:
            ctx.cpu.registers.scr.ns = 1      # Monitor mode with SCR.NS = 1 (as set before a return to Non-secure state)
            desc['ns'] = 1
            desc['mon_ns1'] = True
        if after:
            after(ctx, rng, desc)
        ls.res['sets']['contexts'].add('%s/%s/%s' % (ctxkey[0], mode, kind))
        ls.judge(ctx, desc, 'it-' + itpos, keyfn=keyfn)
    ls.res['violations'] = list(ls.viol.values())
    return ls.res


def replay_rows(pid, data):
    from vf import lockstep, scen
    rp = data['replay']
    ls = lockstep.LockStep(pid, random.Random(0))
    ctx = ls.ctx(tuple(rp['ctx']))
    regs = [int(x, 16) for x in rp['regs']]
    scen.prepare(ctx, random.Random(1), rp['kind'], int(rp['word'], 16), mode=rp['mode'], ns=rp['ns'], regs=regs,
                 code=int(rp.get('code', '0x10000'), 16) if isinstance(rp.get('code'), str) else scen.CODE)
    ctx.cpu.registers.cpsr.value = int(rp['cpsr'], 16)
    ls.judge(ctx, rp, 'replay')
    return dict(evaluations=1, violations=list(ls.viol.values()))


def finish_rows(agg, min_agree=2000):
    c = agg['counters']
    inc = []
    if c.get('ref_ok', 0) < min_agree:
        inc.append('too few steps judged by the reference (%d)' % c.get('ref_ok', 0))
    if c.get('word_generation_failed', 0) > c.get('ref_ok', 1):
        inc.append('word generation mostly failing')
    return inc
