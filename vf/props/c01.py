"""C01 — data-processing instructions: lock-step against the reference (all ARM/T16/T32 encodings of the
arithmetic, logical, shift, move and compare instructions), full-state comparison."""
from vf.props import _lock as L

ID = 'C01'
LEVEL = 'exploration'
SHARD_TIMEOUT = L.SHARD_TIMEOUT
FAMILY = ('dp', 'adr', 'movt', 'subs_pc_lr')        # incl. the <op>S PC, Rn, <operand2> forms (exception return)
RULE = ('case = (word generated from one reference-table row of a data-processing encoding: register fields from '
        '{0,1,2,3,7,8,12,13,14,15}+random, immediates/shift amounts from corners+random, random cond, S bit), random '
        'valid state (corner-heavy 32-bit operands, all modes, NZCVQ/GE random, inside/outside/last in IT for Thumb), '
        'configuration of arch 4..7; the real step and the reference step start from the same snapshot and EVERY '
        'location is compared; non-trivial = the step changed something besides the PC; distinct = (row, IT position, '
        'configuration)')
ASSUMPTIONS = ['vf/ref (tables + semantics) transcribes the ARM ARM pseudocode; words the reference calls UNPREDICTABLE, '
               'optional or not modelled are counted and not judged']


def plan(tier, seed):
    return L.plan_rows(ID, FAMILY, tier, seed, 220, 12000)


def run_shard(spec):
    return L.run_rows(ID, spec, FAMILY, product_cap=512 if spec['per_row'] < 1000 else None, pin_sp=True)


def replay(data):
    return L.replay_rows(ID, data)


def finish(agg, tier, seed):
    return dict(inconclusive=L.finish_rows(agg), coverage=dict(
        rows_exercised=len(agg['sets'].get('rows', ())),
        explanation='sampled per encoding; nothing enumerated completely'))
