"""C05 — conditional execution.  Three monitors, none needs instruction semantics:
 (i)   truth table: condition_passed() observed for all 16 conditions x 16 NZCV x the three places a
       condition comes from, against the architecture's 16-entry table (exhaustive, 768 cases);
 (ii)  no-op monitor: a conditional word with flags that make its condition fail must change nothing
       but PC (+length) and the IT state (advanced) — full E1 diff of the real step;
 (iii) AL-equivalence: the same word with its condition replaced by AL gives the same post-state as the
       original under passing flags."""
import random
from vf.common import use_repo, rng_for
use_repo()

ID = 'C05'
LEVEL = 'exploration'
RULE = ('case = (conditional instruction word, (cond, NZCV) pair, random valid state); words: solved members of '
        'every ARM decoder path with the cond field forced to 0..13, every Thumb-16 word and every Thumb-32 decoder '
        'path inside an IT block (last slot, and for a third of the cases any other slot), B T1/T3 with every cond; failing '
        'pairs for the no-op monitor, passing pairs for AL-equivalence; every 32-bit Thumb word also outside an IT block against the same word in the last slot of an IT AL block (no condition at all outside a block, whatever the flags and GE hold); plus the exhaustive truth table (cond x NZCV) through '
        'the real condition_passed() for the ARM cond field, B T1, B T3 and EVERY legal ITSTATE value (cond:mask, all 15 '
        'non-zero mask nibbles). plus two-step sequences: an exception return executed outside an IT block lands inside a Thumb IT block (every ITSTATE value) and the first instruction there is judged (fail: only PC and ITSTATE advance; pass: executes without setting flags). non-trivial = the same word with a passing '
        'condition changes state beyond the PC; distinct = (set, path id or word>>4, abstract execute class, cond)')
ASSUMPTIONS = ['a step that ends in the Undefined Instruction exception or NotImplementedError is not judged by the '
               'no-op monitor (IMPLEMENTATION DEFINED whether an UNDEFINED instruction that fails its condition traps)',
               'the 16-entry condition table below is transcribed from the ARM ARM (A8.3)']
SHARD_TIMEOUT = {'quick': 900, 'thorough': 7200}

CTXS = [('v6-pmsa-sec', 'off'), ('v7-pmsa-r', 'off'), ('v7-vmsa-sec', 'off'), ('v5-pmsa', 'off'), ('v6-pmsa-sec', 'mpu'),
        ('v7-vmsa-virt', 'off'), ('v4-pmsa', 'off')]


# Thumb instructions that are UNPREDICTABLE anywhere inside an IT block (ARM ARM: "if InITBlock() then
# UNPREDICTABLE") but which the emulator executes instead of flagging; ENTERX/LEAVEX exist only with ThumbEE,
# which no configuration has; UDF may trap or not when its condition fails (IMPLEMENTATION DEFINED).
NOT_IN_IT = {'Cbz', 'EnterxLeavex', 'Udf', 'It', 'CpsThumb', 'Setend'}


def cond_holds(cond, nzcv):
    n, z, c, v = (nzcv >> 3) & 1, (nzcv >> 2) & 1, (nzcv >> 1) & 1, nzcv & 1
    return [z == 1, z == 0, c == 1, c == 0, n == 1, n == 0, v == 1, v == 0, c == 1 and z == 0, c == 0 or z == 1,
            n == v, n != v, z == 0 and n == v, z == 1 or n != v, True, True][cond]


def plan(tier, seed):
    q = tier == 'quick'
    specs = [dict(kind='table', seed=seed, shard=0)]
    for i in range(12 if q else 48):
        specs.append(dict(kind='arm', seed=seed, shard=i, of=12 if q else 48, per_path=40 if q else 1500))
    for i in range(8 if q else 32):
        specs.append(dict(kind='t32', seed=seed, shard=i, of=8 if q else 32, per_path=30 if q else 1200))
    nt = 8 if q else 32
    for i in range(nt):
        specs.append(dict(kind='t16', seed=seed, shard=i, lo=i * (65536 // nt), hi=(i + 1) * (65536 // nt),
                          reps=1 if q else 8))
    for i in range(2 if q else 8):
        specs.append(dict(kind='after-return', seed=seed, shard=i, n=1500 if q else 40000))
    return specs


class Mon:
    def __init__(self, spec):
        from vf import scen
        self.scen = scen
        self.ctxs = {}
        self.res = dict(evaluations=0, nontrivial=set(), counters={}, violations=[], samples=[],
                        sets={'classes_failed_cond': set(), 'classes_al_equiv': set()})
        self.viol = {}
        self.rng = rng_for('C05', spec['kind'], spec['seed'], spec['shard'])
        self.code_data_reads = 0
        self._install_spy()

    def _install_spy(self):
        """count reads that overlap the instruction's own bytes beyond what the fetch needs (the two runs of
        the AL-equivalence monitor differ in exactly those bytes)"""
        from armulator.armv6.memory_controller_hub import MemoryControllerHub
        mon = self
        if getattr(MemoryControllerHub, '_vf_c05', False):
            return
        orig = MemoryControllerHub.__getitem__

        def spy(hub, key):
            a = key[0].paddress.physicaladdress
            if a < mon.scen.CODE + 4 and a + key[1] > mon.scen.CODE:
                mon.reads_at_code += 1
            return orig(hub, key)
        MemoryControllerHub.__getitem__ = spy
        MemoryControllerHub._vf_c05 = True
        self.reads_at_code = 0

    def ctx(self, key):
        if key not in self.ctxs:
            self.ctxs[key] = self.scen.Ctx(*key)
        return self.ctxs[key]

    def bump(self, k, n=1):
        c = self.res['counters']
        c[k] = c.get(k, 0) + n

    def report(self, key, desc, replay):
        if key not in self.viol:
            self.viol[key] = dict(key=key, desc=desc, replay=replay, count=0)
        self.viol[key]['count'] += 1

    # ---------------------------------------------------------------- (ii) + (iii)
    def run_word(self, kind, word, cond, tag, setcond):
        """kind arm: cond goes into bits 31:28 (setcond(word, c) builds the variant); Thumb: into ITSTATE."""
        from vf import observe
        rng = self.rng
        scen = self.scen
        ctxkey = CTXS[rng.randrange(len(CTXS))]
        # an instruction whose OWN operation can raise an exception from its operands: the integer divides (ARMv7-R traps a
        # zero divisor when SCTLR.DZ is set).  Half of their cases run where that can happen, most with a zero divisor.
        from vf.ref import step as RS
        row0 = RS.tables()[kind].match(word if setcond is None or kind != 'arm' else setcond(word, 14))
        divide_m = None
        if row0 is not None and row0.sem in ('sdiv', 'udiv'):
            divide_m = (word & 0xF) if kind != 'arm' else (word >> 8) & 0xF
            if rng.random() < 0.5:
                ctxkey = ('v7-pmsa-r', 'off')
        ctx = self.ctx(ctxkey)
        ns = rng.randrange(2) if ctx.cfg['have_security_ext'] else 0
        mode = rng.choice(ctx.legal_modes(ns))
        fail = [f for f in range(16) if not cond_holds(cond, f)]
        ok = [f for f in range(16) if cond_holds(cond, f)]
        seed = rng.getrandbits(48)
        # 'last' keeps must-be-last instructions predictable; 'mid' (any other ITSTATE<3:0>) is used for a third of the
        # cases: an UNPREDICTABLE placement behaves the same in the compared runs, so the relations below still hold
        itpos = 'out' if kind == 'arm' else rng.choice(['last', 'last', 'mid'])

        event_pending = rng.random() < 0.3        # an event signalled from outside is pending (what WFE consumes)

        def go(c, nzcv, pos=None):
            r = random.Random(seed)
            w = setcond(word, c) if kind == 'arm' or setcond is not None else word
            d = scen.prepare(ctx, r, kind, w, mode=mode, itpos=pos or itpos, ns=ns, nzcv=nzcv,
                             itcond=None if (kind == 'arm' or setcond is not None) else c)
            if event_pending:
                ctx.cpu.registers.event_register = True
                d['event_register'] = True
            if ctx.cfg.get('is_armv7r_profile') and r.random() < 0.5:
                ctx.cpu.registers.sctlr.dz = 1                 # ARMv7-R: integer divide-by-zero trapping enabled
                d['sctlr_dz'] = 1
            if r.random() < 0.12:
                # operands that make an instruction's OWN operation raise something (a zero divisor ...): whatever it is, it
                # sits inside "if ConditionPassed()"
                for n_ in range(13):
                    if r.random() < 0.6:
                        ctx.cpu.registers.set(n_, r.choice([0, 0, 0, 1, 0xFFFFFFFF, 0x80000000]))
                d['regs'] = ['%#x' % ctx.cpu.registers.get(n_) for n_ in range(15)]
            if divide_m is not None and divide_m < 13 and r.random() < 0.7:
                ctx.cpu.registers.set(divide_m, 0)
                d['regs'] = ['%#x' % ctx.cpu.registers.get(n_) for n_ in range(15)]
                self.bump('divides_with_zero_divisor' + ('_and_trap_enabled' if d.get('sctlr_dz') else ''))
            pre = observe.snapshot(ctx.cpu)
            self.reads_at_code = 0
            k, sig = scen.step(ctx.cpu)
            post = observe.snapshot(ctx.cpu)
            fetch_reads = 1 if kind in ('arm', 't16') else 2
            self.code_data_reads = max(0, self.reads_at_code - fetch_reads)
            return d, pre, post, k, type(ctx.cpu.executed_opcode).__mro__[1].__name__ if ctx.cpu.executed_opcode is not None else 'NoneType'

        length = 4 if kind in ('arm', 't32') else 2
        # --- failing condition: must be a no-op
        if fail:
            nz = rng.choice(fail)
            d, pre, post, k, cls = go(cond, nz)
            self.res['evaluations'] += 1
            ch = observe.diff(pre, post)
            took_und = (post['cpsr'] & 0x1F) == 0b11011 and (pre['cpsr'] & 0x1F) != 0b11011 or \
                ((post['cpsr'] & 0x1F) == 0b11010 and post['cpsr'] != pre['cpsr'] and 'spsr_hyp' in ch)
            if k == 'host':
                self.bump('noop_host_error_left_to_C18')
            elif k == 'notimpl':
                self.bump('noop_notimpl')
                if ch:
                    self.report('C05|failed-cond-notimpl-changed-state|%s' % cls, dict(d, changed=sorted(ch)), d)
            elif took_und or cls == 'NoneType':
                # IMPLEMENTATION DEFINED whether an UNDEFINED instruction that fails its condition traps - but only an
                # instruction that IS undefined (in this state) may trap: the reference, with the condition forced to pass,
                # says whether it is
                from vf.ref import step as RS
                try:
                    v2, ref2, info2 = RS.step(pre, ctx.cfg, force_cond=True)
                except Exception:
                    v2, ref2 = 'error', None
                if took_und and v2 == 'ok' and (not ({'undef', 'hyptrap'} & set(ref2.events)) or info2.get('undef_from_execution')):
                    self.bump('noop_judged')
                    self.report('C05|failed-cond-took-undefined|%s' % (info2.get('row') or '?'),
                                dict(d, cond=cond, nzcv=nz, row=info2.get('row'), changed=sorted(ch)), dict(d, cond=cond, nzcv=nz))
                else:
                    self.bump('noop_skipped_undefined')
            elif kind != 'arm' and cls in NOT_IN_IT:
                self.bump('noop_skipped_unpredictable_in_it_block')
            else:
                self.res['sets']['classes_failed_cond'].add(cls)
                bad = set(ch)
                why = []
                if post['PC'] != ((pre['PC'] + length) & 0xFFFFFFFF):
                    why.append('PC')
                bad.discard('PC')
                if 'cpsr' in bad:
                    itmask = 0x0600FC00
                    if (pre['cpsr'] ^ post['cpsr']) & ~itmask:
                        why.append('flags' if not ((pre['cpsr'] ^ post['cpsr']) & ~itmask & ~0xF80F0000) else 'cpsr-other')
                    bad.discard('cpsr')
                if kind != 'arm':
                    exp_it = it_advance(((pre['cpsr'] >> 25) & 3) | (((pre['cpsr'] >> 10) & 0x3F) << 2))
                    got_it = ((post['cpsr'] >> 25) & 3) | (((post['cpsr'] >> 10) & 0x3F) << 2)
                    if exp_it != got_it and 'PC' not in why:
                        why.append('ITSTATE')
                why += sorted(categ(b) for b in bad)
                self.bump('noop_judged')
                if why:
                    self.report('C05|failed-cond-changed-state|%s|%s' % (cls, ','.join(sorted(set(why)))[:60]),
                                dict(d, cond=cond, nzcv=nz, changed=sorted(ch)), dict(d, cond=cond, nzcv=nz))
                if len(self.res['samples']) < 2 and rng.random() < 0.01:
                    self.res['samples'].append(dict(d, cond=cond, nzcv=format(nz, '04b'), observed_diff=sorted(ch)))
        # --- passing condition vs AL
        if ok and cond != 14:
            nz = rng.choice(ok)
            d1, pre1, post1, k1, cls1 = go(cond, nz)
            reads1 = self.code_data_reads
            d2, pre2, post2, k2, cls2 = go(14, nz)
            self.code_data_reads += reads1
            self.res['evaluations'] += 1
            if k1 == 'host' or k2 == 'host':
                return
            if cls1 == 'NoneType' or cls1 != cls2 or (kind != 'arm' and cls1 in NOT_IN_IT):
                self.bump('al_equiv_skipped_undefined_or_unpredictable')
                return
            if self.code_data_reads:
                self.bump('al_equiv_skipped_reads_own_code')
                return
            a, b = dict(post1), dict(post2)
            # an exception taken to Hyp mode records the instruction's own condition in the syndrome: HSR.{CV, COND}, and for
            # SVC the immediate is UNKNOWN unless the condition is AL (CallSupervisor()): the HSR differs by construction
            # between the conditional and the AL variant and is not part of this relation
            for s in (a, b):
                s.pop('hsr', None)
            if kind != 'arm' and setcond is None:
                # ITSTATE keeps its base condition: compare modulo IT[7:5]
                # ITSTATE[7:4] is the condition itself (bit 4 is refilled from the mask on advance, which C08 checks)
                for s in (a, b):
                    s['cpsr'] &= ~0x0000F000
                    for sp in ('spsr_und', 'spsr_svc', 'spsr_abt', 'spsr_hyp', 'spsr_mon'):
                        s[sp] &= ~0x0000F000
            # the instruction word itself differs in memory (cond field): ignore the code bytes
            for s in (a, b):
                for mk in [x for x in s if x.startswith('mem') and not x.startswith('memgeom')]:
                    pass
            ch = {x for x in observe.diff(a, b) if not (x == 'mem1' and kind == 'arm')}
            if kind == 'arm' and 'mem1' in observe.diff(a, b):
                off = scen.CODE - scen.RAM_B[0]
                m1, m2 = bytearray(a['mem1']), bytearray(b['mem1'])
                m1[off:off + 4] = b'\0' * 4
                m2[off:off + 4] = b'\0' * 4
                if m1 != m2:
                    ch.add('mem1')
            self.bump('al_equiv_judged')
            if observe.diff(pre1, post1) - {'PC'}:
                self.res['nontrivial'].add('%s|%s|%s|c%d' % (kind, tag, cls1, cond))
            self.res['sets']['classes_al_equiv'].add(cls1)
            if ch or k1 != k2:
                self.report('C05|passed-cond-differs-from-AL|%s|%s' % (cls1, ','.join(sorted({categ(x) for x in ch}))[:60]),
                            dict(d1, cond=cond, nzcv=nz, differing=sorted(ch)), dict(d1, cond=cond, nzcv=nz))
            elif kind == 't32' and setcond is None and itpos == 'last':
                # ... and OUTSIDE an IT block a Thumb instruction has no condition at all: the same 32-bit word, same state,
                # ITSTATE = 0, must do exactly what it does in the last slot of an IT AL block - whatever N, Z, C, V, Q and GE hold
                d3, pre3, post3, k3, cls3 = go(14, nz, pos='out')
                if cls3 != cls2 or self.code_data_reads:
                    self.bump('outside_it_skipped')
                    return
                a, b = dict(post2), dict(post3)
                for s_ in (a, b):
                    s_.pop('hsr', None)
                    s_['cpsr'] &= ~0x0600FC00
                    for sp in ('spsr_und', 'spsr_svc', 'spsr_abt', 'spsr_hyp', 'spsr_mon'):
                        s_[sp] &= ~0x0600FC00
                ch3 = set(observe.diff(a, b))
                self.bump('outside_it_judged')
                if ch3 or k3 != k2:
                    self.report('C05|outside-it-block-differs-from-unconditional|%s|%s' % (cls2, ','.join(sorted({categ(x) for x in ch3}))[:60]),
                                dict(d3, nzcv=nz, differing=sorted(ch3)), dict(d3, nzcv=nz))


def it_advance_ref(it):
    if (it & 7) == 0:
        return 0
    return (it & 0xE0) | ((it << 1) & 0x1F)


def after_return(mon, spec):
    """two-instruction sequences: an exception return executed OUTSIDE an IT block (ARM or Thumb handler) lands in the middle
    of a Thumb IT block; the first instruction there runs under the restored condition: failing -> nothing but PC and
    ITSTATE advance, passing -> it executes (without setting flags) and ITSTATE advances just the same"""
    from vf import observe, machine as M
    rng = mon.rng
    scen = mon.scen
    for i in range(spec['n']):
        ctx = mon.ctx(rng.choice([('v7-pmsa-r', 'off'), ('v6-pmsa-sec', 'off'), ('v7-vmsa-sec', 'off'), ('v7-vmsa-virt', 'off')]))
        if ctx.cfg['arch_version'] < 7 and False:
            continue
        cond = rng.randrange(14)
        nzcv = rng.randrange(16)
        low = rng.choice([0b1000, 0b0100, 0b1100, 0b0010, 0b0110, 0b1010, 0b1110, 0b0001, 0b0011, 0b0101, 0b0111, 0b1001, 0b1011,
                          0b1101, 0b1111])
        it = (cond << 4) | low
        arm_handler = rng.random() < 0.5
        target_mode = rng.choice(['usr', 'sys', 'svc', 'irq'])
        word, kind = (0xE1B0F00E, 'arm') if arm_handler else (0xF3DE8F00, 't32')       # MOVS PC,LR / SUBS PC,LR,#0
        regs = [rng.getrandbits(32) for _ in range(15)]
        tgt = scen.CODE + 0x40
        regs[14] = tgt
        desc = scen.prepare(ctx, rng, kind, word, mode='svc', itpos='out', regs=regs, nzcv=rng.randrange(16))
        cpu = ctx.cpu
        r = cpu.registers
        spsr = (nzcv << 28) | ((it & 3) << 25) | ((it >> 2) << 10) | (1 << 5) | M.MODES[target_mode] | (rng.getrandbits(1) << 27)
        r.spsr_svc = spsr
        # ADD r0, r1, r2 (16-bit: sets flags only outside an IT block) ; NOPs
        M.poke(cpu, tgt, (0x1888).to_bytes(2, 'little') + b'\x00\xbf' * 6)
        k1, _ = scen.step(cpu)
        s1 = observe.snapshot(cpu)
        mon.res['evaluations'] += 1
        if k1 != 'ok' or s1['PC'] != tgt or s1['cpsr'] != spsr:
            mon.bump('after_return_first_step_not_as_set_up')      # the return itself is C12's business
            continue
        k2, _ = scen.step(cpu)
        s2 = observe.snapshot(cpu)
        mon.bump('after_return_sequences')
        passed = cond_holds(cond, nzcv)
        want_it = it_advance_ref(it)
        got_it = (((s2['cpsr'] >> 10) & 0x3F) << 2) | ((s2['cpsr'] >> 25) & 3)
        ch = observe.diff(s1, s2)
        mon.res['nontrivial'].add('after-return|c%d|%s|%s|%s' % (cond, 'pass' if passed else 'fail', 'arm' if arm_handler else 'thumb', format(low, '04b')))
        why = None
        rn = {'usr': 'usr', 'sys': 'usr', 'svc': 'usr', 'irq': 'usr'}[target_mode]
        if k2 != 'ok':
            why = 'second step: %s' % k2
        elif got_it != want_it:
            why = 'ITSTATE %#04x -> %#04x, ITAdvance gives %#04x' % (it, got_it, want_it)
        elif s2['PC'] != tgt + 2:
            why = 'PC %#x, expected %#x' % (s2['PC'], tgt + 2)
        elif (s1['cpsr'] ^ s2['cpsr']) & ~0x0600FC00:
            why = 'CPSR bits other than ITSTATE changed: %#x -> %#x' % (s1['cpsr'], s2['cpsr'])
        elif not passed and ch - {'PC', 'cpsr'}:
            why = 'failed condition changed %s' % sorted(ch - {'PC', 'cpsr'})
        elif passed and s2['R0usr'] != (s1['R1usr'] + s1['R2usr']) & 0xFFFFFFFF:
            why = 'passing condition: R0 = %#x, expected %#x' % (s2['R0usr'], (s1['R1usr'] + s1['R2usr']) & 0xFFFFFFFF)
        if why:
            mon.report('C05|after-exception-return|%s|%s' % ('passed' if passed else 'failed', 'arm-handler' if arm_handler else 'thumb-handler'),
                       dict(desc, cond=cond, nzcv=nzcv, itstate='%#04x' % it, target_mode=target_mode, why=why), dict(desc, cond=cond, nzcv=nzcv))


def categ(name):
    if name.startswith('mem'):
        return 'mem'
    if name == 'PC' or name == 'cpsr':
        return name
    if name[0] in 'RSL' and name[1:2].isdigit() or name[:2] in ('SP', 'LR'):
        return 'reg'
    if name.startswith('spsr') or name == 'elr_hyp':
        return 'spsr'
    return 'sysreg:' + name


def it_advance(it):
    if (it & 7) == 0:
        return 0
    return (it & 0xE0) | ((it << 1) & 0x1F)


def table(mon):
    """(i) exhaustive truth table through the real condition_passed()."""
    ctx = mon.ctx(('v6-pmsa-sec', 'off'))
    for src in ('arm', 'b_t1', 'b_t3', 'it', 'it1', 'it2', 'it3', 'it4', 'it5', 'it6', 'it7', 'it9', 'it10', 'it11', 'it12', 'it13',
                'it14', 'it15'):
        low = 0b1000 if src == 'it' else (int(src[2:]) if src.startswith('it') else 0)
        if src.startswith('it'):
            src = 'it'
        for cond in range(16):
            for nzcv in range(16):
                if src == 'it' and cond == 14 and low not in (1, 2, 4, 8):
                    continue              # ITSTATE 1110:xxxx with an 'else' still to come is not a legal IT state
                cpu = ctx.fresh()
                r = cpu.registers
                r.cpsr.value = (nzcv << 28) | 0b10011 | (0 if src == 'arm' else 0x20)
                if src == 'arm':
                    cpu.opcode, cpu.opcode_len = (cond << 28) | 0x01A00000, 32
                elif src == 'b_t1':
                    if cond >= 14:
                        continue          # 1101 111x are UDF / SVC, not B<c>
                    cpu.opcode, cpu.opcode_len = 0xD000 | (cond << 8) | 0x12, 16
                elif src == 'b_t3':
                    if cond >= 14:
                        continue          # not B T3 encodings
                    cpu.opcode, cpu.opcode_len = 0xF0008000 | (cond << 22) | 0x40, 32
                else:
                    if cond == 15:
                        continue          # ITSTATE cond 1111 is not a legal IT state
                    cpu.opcode, cpu.opcode_len = 0x1888, 16          # ADDS r0,r1,r2 inside the block
                    r.cpsr.it = (cond << 4) | low
                got = bool(cpu.condition_passed())
                exp = cond_holds(cond, nzcv)
                mon.res['evaluations'] += 1
                mon.bump('truth_table_entries')
                mon.res['nontrivial'].add('table|%s%s|%d|%d' % (src, low or '', cond, nzcv))
                if got != exp:
                    mon.report('C05|truth-table|%s%s|cond%d' % (src, ':%s' % format(low, '04b') if src == 'it' else '', cond),
                               'condition_passed() = %s for cond %s NZCV %s from %s, table says %s' % (
                                   got, format(cond, '04b'), format(nzcv, '04b'), src, exp),
                               dict(src=src, cond=cond, nzcv=nzcv))
    # conditions inside an IT block apply to EVERY instruction in it, including SVC/UDF (1101 111x) whose
    # bits 11:8 look like a cond field but are not one
    for word, name in ((0xDF05, 'svc_t1'),):
        for cond in range(14):
            for nzcv in range(16):
                cpu = ctx.fresh()
                cpu.registers.cpsr.value = (nzcv << 28) | 0b10011 | 0x20
                cpu.registers.cpsr.it = (cond << 4) | 0b1000
                cpu.opcode, cpu.opcode_len = word, 16
                got = bool(cpu.condition_passed())
                mon.res['evaluations'] += 1
                mon.bump('truth_table_entries')
                if got != cond_holds(cond, nzcv):
                    mon.report('C05|truth-table|it-block-%s' % name,
                               'inside an IT block %s must use the IT condition %s (NZCV %s): got %s' % (
                                   name, format(cond, '04b'), format(nzcv, '04b'), got), dict(src=name, cond=cond, nzcv=nzcv))


def run_shard(spec):
    from vf import trace_decode as td
    mon = Mon(spec)
    rng = mon.rng
    kind = spec['kind']
    if kind == 'table':
        table(mon)
    elif kind == 'after-return':
        after_return(mon, spec)
    elif kind in ('arm', 't32'):
        cubes, info = td.all_paths(random.Random(spec['seed']))
        if not (info[kind]['complete'] and info[kind]['partition_ok']):
            mon.bump('path_enumeration_incomplete')
        for pi, (m, v, ds, out, wit) in enumerate(cubes[kind]):
            if pi % spec['of'] != spec['shard'] or out.startswith(('#', 'None', 'EXC')):
                continue
            if kind == 'arm':
                if (m & 0xF0000000) == 0xF0000000 and (v >> 28) == 0xF:
                    continue           # unconditional space
                def setcond(w, c):
                    return (w & 0x0FFFFFFF) | (c << 28)
            else:
                setcond = None
            mon.bump('paths_visited_' + kind)
            for j in range(spec['per_path']):
                w = wit if j == 0 else td.sample(m, v, ds, 32, rng)
                if w is None:
                    continue
                if kind == 'arm' and (w >> 28) == 0xF:
                    continue
                cond = rng.randrange(14)
                if out == 'BT3':
                    # B T3 carries its own cond field (bits 25:22); it is not allowed inside an IT block
                    def setc3(w_, c):
                        return (w_ & ~(0xF << 22)) | (c << 22)
                    mon_b(mon, 't32', w, cond, 'p%d' % pi, setc3)
                    continue
                mon.run_word(kind, w, cond, 'p%d' % pi, setcond)
    elif kind == 't16':
        for w in range(spec['lo'], spec['hi']):
            if (w >> 11) in (0b11101, 0b11110, 0b11111):
                continue
            for _ in range(spec['reps']):
                cond = rng.randrange(14)
                if (w >> 12) == 0b1101 and ((w >> 8) & 0xF) < 14:
                    def setc1(w_, c):
                        return (w_ & ~0x0F00) | (c << 8)
                    mon_b(mon, 't16', w, cond, 'w%03x' % (w >> 4), setc1)
                else:
                    mon.run_word('t16', w, cond, 'w%03x' % (w >> 4), None)
        mon.bump('t16_words_covered', spec['hi'] - spec['lo'])
    mon.res['violations'] = list(mon.viol.values())
    return mon.res


def mon_b(mon, kind, word, cond, tag, setc):
    """Conditional branches B T1 / T3 outside an IT block: cond field in the word."""
    from vf import observe
    rng = mon.rng
    scen = mon.scen
    ctx = mon.ctx(CTXS[rng.randrange(len(CTXS))])
    fail = [f for f in range(16) if not cond_holds(cond, f)]
    if not fail:
        return
    nz = rng.choice(fail)
    d = scen.prepare(ctx, rng, kind, setc(word, cond), mode=rng.choice(ctx.legal_modes(0)), itpos='out', nzcv=nz)
    pre = observe.snapshot(ctx.cpu)
    k, sig = scen.step(ctx.cpu)
    post = observe.snapshot(ctx.cpu)
    mon.res['evaluations'] += 1
    ch = observe.diff(pre, post)
    length = 2 if kind == 't16' else 4
    cls = type(ctx.cpu.executed_opcode).__mro__[1].__name__ if ctx.cpu.executed_opcode is not None else 'NoneType'
    mon.bump('noop_branch_judged')
    mon.res['sets']['classes_failed_cond'].add(cls)
    mon.res['nontrivial'].add('%s|%s|%s|c%d' % (kind, tag, cls, cond))
    if k != 'ok' or ch != {'PC'} or post['PC'] != ((pre['PC'] + length) & 0xFFFFFFFF):
        mon.report('C05|failed-cond-branch-changed-state|%s' % cls, dict(d, cond=cond, nzcv=nz, changed=sorted(ch)),
                   dict(d, cond=cond, nzcv=nz))


def replay(data):
    from vf import observe
    rp = data['replay']
    mon = Mon(dict(kind='replay', seed=0, shard=0))
    out = dict(evaluations=1, violations=[])
    if 'src' in rp:
        table(mon)
        out['violations'] = [v for v in mon.viol.values() if v['key'] == data['key']]
        return out
    ctx = mon.ctx(tuple(rp['ctx']))
    regs = [int(x, 16) for x in rp['regs']]
    mon.scen.prepare(ctx, random.Random(1), rp['kind'], int(rp['word'], 16), mode=rp['mode'], ns=rp['ns'], regs=regs)
    ctx.cpu.registers.cpsr.value = int(rp['cpsr'], 16)
    if rp.get('event_register'):
        ctx.cpu.registers.event_register = True
    pre = observe.snapshot(ctx.cpu)
    k, sig = mon.scen.step(ctx.cpu)
    post = observe.snapshot(ctx.cpu)
    ch = observe.diff(pre, post) - {'PC'}
    if 'cpsr' in ch and not ((pre['cpsr'] ^ post['cpsr']) & ~0x0600FC00):
        ch.discard('cpsr')
    if ch and 'failed-cond' in data['key']:
        out['violations'].append(dict(key=data['key'], desc='changed %s' % sorted(ch)))
    return out


def finish(agg, tier, seed):
    c = agg['counters']
    inc = []
    if c.get('truth_table_entries', 0) < 16 * 16 + 2 * 14 * 16 + 14 * 15 * 16 + 4 * 16 + 14 * 16:
        inc.append('truth table incomplete (%d entries)' % c.get('truth_table_entries', 0))
    if c.get('t16_words_covered', 0) != 65536:
        inc.append('Thumb-16 words not all covered')
    if c.get('path_enumeration_incomplete', 0):
        inc.append('decoder path enumeration incomplete')
    if c.get('noop_judged', 0) < 5000:
        inc.append('too few failed-condition steps judged (%d)' % c.get('noop_judged', 0))
    if len(agg['sets'].get('classes_failed_cond', ())) < 200:
        inc.append('only %d abstract execute classes reached with a failing condition' %
                   len(agg['sets'].get('classes_failed_cond', ())))
    return dict(inconclusive=inc, coverage=dict(
        exhaustive_subspaces=['condition truth table: 16 cond x 16 NZCV x {ARM field, B T1, B T3, ITSTATE} + SVC/UDF in IT'],
        abstract_classes_reached_failed_cond=len(agg['sets'].get('classes_failed_cond', ())),
        explanation='the truth table is enumerated completely; the no-op and AL-equivalence monitors are sampled '
                    'over every decoder path and every Thumb-16 word'))
