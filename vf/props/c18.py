"""C18 — stepping is total: escape monitor around the real emulate_cycle().  Anything that escapes
other than NotImplementedError is a violation, clustered by (exception type, raising function)."""
import random
from vf.common import use_repo, rng_for
from vf.props import _lock as L
use_repo()

ID = 'C18'
LEVEL = 'exploration'
RULE = ('case = one real emulate_cycle() on (word, instruction set, IT position, mode, security state, configuration, '
        'protection on/off, random valid register state); words: ALL 2^16 Thumb-16 words x 3 IT positions, >=N solved '
        'members of EVERY feasible path of the real ARM and Thumb-32 decoders (paths enumerated completely by the '
        'bit-provenance tracer, partition checked by model counting), uniformly random words, and random 50-step '
        'programs; a third of the VMSA steps run with the MMU on and translation registers (TTBCR incl. EAE, TTBRs, DACR, '
        'PRRR/NMRR, MAIR, HCR.VM/VTCR/VTTBR, HTCR/HTTBR) pointing at arbitrary RAM contents; every MCR/MRC (and MCRR/MRRC) '
        'register address of cp14/cp15 written then read on one long-lived instance with an audit that no register object '
        'changed type, followed by take_reset(); every data-accessing encoding row of the reference tables with register pools, field products and addresses solved onto RAM, device ends and the edges of the address space in fourteen contexts, one of them with the second stage of translation on and two gigabytes invalid there (stage-2 aborts to Hyp mode build the load/store instruction syndrome of the executing class) (host errors only are judged here); translation walks over generated page-table sets of both descriptor formats with reserved / IMPLEMENTATION DEFINED descriptor bits drawn at random; non-trivial = the step got past decode (an opcode object executed or an architectural exception '
        'was taken); distinct = (instruction set, decoder path id or T16 word>>4, outcome, context)')
ASSUMPTIONS = ['NotImplementedError escaping emulate_cycle is the documented not-implemented outcome',
               'machine states are generated valid (legal mode for the configuration, J=0, IT=0 in ARM state; VTCR.SL0/T0SZ '
               'pairs the manual calls UNPREDICTABLE are not generated)']

CTXS = [('v6-pmsa-sec', 'off'), ('v6-pmsa-sec', 'mpu'), ('v7-pmsa-r', 'off'), ('v7-vmsa-sec', 'off'),
        ('v7-vmsa-sec', 'mmu'), ('v7-vmsa-virt', 'off'), ('v5-pmsa', 'off'), ('v4-pmsa', 'off'), ('v6-pmsa', 'mpu'),
        ('v6-vmsa', 'mmu'), ('v7-pmsa-r', 'mpu'), ('v6-pmsa-sec-impdef', 'mpu'), ('v7-vmsa-virt-impdef', 'off')]
SHARD_TIMEOUT = {'quick': 900, 'thorough': 7200}


def plan(tier, seed):
    specs = []
    q = tier == 'quick'
    nt16 = 16 if q else 32
    for i in range(nt16):
        specs.append(dict(kind='t16', seed=seed, shard=i, lo=i * (65536 // nt16), hi=(i + 1) * (65536 // nt16),
                          reps=1 if q else 6))
    npath = 16 if q else 64
    for i in range(npath):
        specs.append(dict(kind='paths', seed=seed, shard=i, of=npath, per_path=120 if q else 6000))
    nrand = 8 if q else 48
    for i in range(nrand):
        specs.append(dict(kind='random', seed=seed, shard=i, n=6000 if q else 150000))
    nprog = 8 if q else 32
    for i in range(nprog):
        specs.append(dict(kind='programs', seed=seed, shard=i, n=120 if q else 4000, steps=50))
    # every data-accessing encoding row of the reference tables with the generators of the lock-step checks (register
    # pools, complete products of the narrow fields, addresses solved onto RAM / device ends / the edges of the address
    # space, both endiannesses, all configurations): instructions whose deeper paths need an access that really reaches memory
    specs += [dict(s_, kind='rows') for s_ in L.plan_rows(ID, ROW_FAMILY, tier, seed, 400, 12000, 16, 32)]
    # translation walks over GENERATED page tables (the table sets of the C15 check: both descriptor formats, every descriptor
    # type, reserved and IMPLEMENTATION DEFINED bits drawn at random, walks that complete): host errors only
    specs += [dict(kind='walks', seed=seed, shard=i, sets=40 if q else 1500, addrs=50 if q else 120) for i in range(4 if q else 16)]
    # system-register sweep: every (coproc 14/15, opc1, CRn, CRm, opc2) written then read back on ONE long-lived
    # instance per shard (state is never restored in between)
    for cp in (14, 15):
        for opc1 in range(8):
            specs.append(dict(kind='sysregs', seed=seed, shard=len(specs), cp=cp, opc1=opc1, rounds=2 if q else 8))
    return specs


class Mon:
    def __init__(self, spec):
        from vf import scen
        self.scen = scen
        self.ctxs = {}
        self.res = dict(evaluations=0, nontrivial=set(), counters={}, violations=[], samples=[], sets={'contexts': set()})
        self.viol = {}
        self.rng = rng_for('C18', spec['kind'], spec['seed'], spec['shard'])

    def ctx(self, key):
        if key not in self.ctxs:
            self.ctxs[key] = self.scen.Ctx(*key)
        return self.ctxs[key]

    def bump(self, k, n=1):
        c = self.res['counters']
        c[k] = c.get(k, 0) + n


    def confirm_taint(self, cpu, kind, word, desc, changed, ctxkey):
        from vf import machine as M
        from vf.common import exc_signature
        scen = self.scen
        home = int(desc['cpsr'], 16)
        hints = ([0xE320F000 | h for h in (0, 1, 2, 3, 4)] if kind == 'arm' else [0xBF00 | (h << 4) for h in (0, 1, 2, 3, 4)])
        seq = [(kind, word, ev) for ev in (False, True, False)] + [('arm' if kind == 'arm' else 't16', h, False) for h in hints]
        seq += [(kind, word, False)]
        hist = ['%s %#x' % (kind, word)]
        for k2, w2, ev in seq:
            try:
                cpu.registers.cpsr.value = home
                cpu.registers.branch_to(scen.CODE)
                M.put_code(cpu, scen.CODE, w2, k2)
                cpu.registers.event_register = ev
                r, sig = scen.step(cpu)
            except Exception as ex:
                r, sig = 'host', exc_signature(ex)
            hist.append('%s %#x (event register %s)' % (k2, w2, ev))
            self.res['evaluations'] += 1
            self.bump('confirmation_steps_after_attribute_change')
            if r == 'host':
                key = 'C18|%s|%s:%s|after-a-step-changed-%s' % (sig[0], sig[1].split('/')[-1], sig[2], ','.join(changed)[:40])
                if key not in self.viol:
                    self.viol[key] = dict(key=key, desc='%s at %s:%s line %s on the same instance after a step had changed %s: history %s (%s)' % (
                        sig[0], sig[1], sig[2], sig[3], changed[:4], hist, ctxkey), replay=dict(desc, history=hist), count=0)
                self.viol[key]['count'] += 1
                self.bump('outcome_host_error')
                return
        try:
            cpu.take_reset()
        except NotImplementedError:
            pass
        except Exception as ex:
            sig = exc_signature(ex)
            key = 'C18|%s|%s:%s|take_reset-after-a-step-changed-%s' % (sig[0], sig[1].split('/')[-1], sig[2], ','.join(changed)[:40])
            if key not in self.viol:
                self.viol[key] = dict(key=key, desc='take_reset() after a step had changed %s: %s' % (changed[:4], sig), replay=dict(desc, history=hist), count=0)
            self.viol[key]['count'] += 1


    def confirm_store(self, cpu, kind, word, desc, odd, ctxkey):
        from vf import machine as M
        from vf.common import exc_signature
        scen = self.scen
        r = cpu.registers
        hist = ['%s %#x' % (kind, word)]
        thumb = kind != 'arm'
        for mode in sorted({r.cpsr.m, 0b10011, 0b10001, 0b11111}):
            try:
                r.cpsr.value = (0x1C0 | mode | (0x20 if thumb else 0))          # little-endian data, no IT block
                r.sctlr.m = 0
                r.set(13, 0x7000)
                r.branch_to(scen.CODE)
                M.put_code(cpu, scen.CODE, 0xE92D5FFF, 't32' if thumb else 'arm')   # PUSH {r0-r12, lr}
                res, sig = scen.step(cpu)
            except Exception as ex:
                res, sig = 'host', exc_signature(ex)
            hist.append('PUSH {r0-r12,lr} in mode %s' % format(mode, '05b'))
            self.res['evaluations'] += 1
            self.bump('confirmation_steps_after_out_of_range_register')
            if res == 'host':
                key = 'C18|%s|%s:%s|storing-%s-after-a-step-left-it-out-of-range' % (sig[0], sig[1].split('/')[-1], sig[2], odd[0])
                if key not in self.viol:
                    self.viol[key] = dict(key=key, desc='%s at %s:%s line %s when the registers are stored after word %#x (%s) had left %s '
                                          'holding a value outside 0..2^32-1: history %s (%s)' % (sig[0], sig[1], sig[2], sig[3], word, kind, odd[:4],
                                                                                                  hist, ctxkey),
                                          replay=dict(desc, history=hist), count=0)
                self.viol[key]['count'] += 1
                self.bump('outcome_host_error')
                return

    def one(self, kind, word, tag, itpos=None, ctxkey=None, mode=None):
        from vf import observe
        rng = self.rng
        scen = self.scen
        ctxkey = ctxkey or CTXS[rng.randrange(len(CTXS))]
        ctx = self.ctx(ctxkey)
        ns = rng.randrange(2) if ctx.cfg['have_security_ext'] else 0
        mode = mode or rng.choice(ctx.legal_modes(ns))
        if itpos is None:
            itpos = 'out' if kind == 'arm' else rng.choice(scen.IT_POSITIONS)
        desc = scen.prepare(ctx, rng, kind, word, mode=mode, itpos=itpos, ns=ns, e=(rng.random() < 0.15))
        cpu = ctx.cpu
        if ctx.cfg['memory_system_architecture'] == 'VMSA' and rng.random() < 0.35:
            hostile_mmu(cpu, ctx.cfg, rng, ns)
            r_ = cpu.registers
            desc['hostile_mmu'] = {k: getattr(getattr(r_, k), 'value', getattr(r_, k)) for k in HOSTILE_REGS if hasattr(r_, k)}
            self.bump('steps_with_hostile_mmu_setup')
        if ctx.cfg['have_security_ext'] and rng.random() < 0.3:
            # Non-secure access controls at arbitrary values (coprocessor bits, RFR: FIQ mode reserved for Secure state)
            cpu.registers.nsacr.value = rng.getrandbits(32)
            desc['nsacr'] = '%#x' % cpu.registers.nsacr.value
        if ctx.cfg['arch_version'] == 6 and rng.random() < 0.5:
            # ARMv6 alignment models: legacy rotation (U=0), unaligned support (U=1), strict checking (A=1)
            cpu.registers.sctlr.u = rng.randrange(2)
            cpu.registers.sctlr.a = 1 if rng.random() < 0.3 else 0
            desc['sctlr_ua'] = [cpu.registers.sctlr.u, cpu.registers.sctlr.a]
        if rng.random() < 0.04:
            # the J bit is reachable by an exception return (SPSR values are software-controlled): Jazelle (J=1,T=0) and
            # ThumbEE (J=1,T=1) states must step without a host error too, whatever they then do
            cpu.registers.cpsr.j = 1
            desc['j'] = 1
            desc['cpsr'] = '%#010x' % cpu.registers.cpsr.value
            self.bump('steps_from_jazelle_or_thumbee_state')
        if rng.random() < 0.3:
            cpu.registers.event_register = True              # an event is pending (set from outside: SEV of another processor)
        pre_mode = cpu.registers.cpsr.m
        tm0 = type_map(cpu)
        k, sig = scen.step(cpu)
        self.res['evaluations'] += 1
        tm1 = type_map(cpu)
        self.bump('type_audits')
        if tm1 != tm0:
            # not itself a violation of the property (no host error yet): the SAME instance is driven on — the same word again
            # with the Event Register clear and set, the hint instructions, a reset — and only a host error that follows is
            # reported, with the two-step history as its witness
            changed = sorted(set(tm0) ^ set(tm1)) + sorted(k_ for k_ in tm0 if k_ in tm1 and tm0[k_] != tm1[k_])
            self.bump('steps_that_changed_the_attribute_set_or_types')
            self.res['sets'].setdefault('attributes_added_or_retyped_by_a_step', set()).add(','.join(changed)[:80])
            self.confirm_taint(cpu, kind, word, desc, changed, ctxkey)
            self.ctxs.pop(ctxkey, None)
        elif k != 'host':
            # a core register left holding something that is not a 32-bit number (the range invariant of C10) is not a
            # host error yet; storing it is the next thing a program does with it: all registers are pushed, little-endian,
            # on the same instance, and a host error that follows is reported with the two-step history
            odd = [n_.name for n_, v_ in getattr(cpu.registers, '_R', {}).items() if not (isinstance(v_, int) and 0 <= v_ <= 0xFFFFFFFF)]
            if odd:
                self.bump('steps_leaving_a_core_register_out_of_range')
                self.confirm_store(cpu, kind, word, desc, odd, ctxkey)
                self.ctxs.pop(ctxkey, None)
        executed = type(cpu.executed_opcode).__name__
        post_mode = cpu.registers.cpsr.m
        if k == 'host':
            key = 'C18|%s|%s:%s' % (sig[0], sig[1].split('/')[-1], sig[2])
            if key not in self.viol:
                pre = dict(desc)
                self.viol[key] = dict(key=key, desc='%s at %s:%s line %s; word %s (%s) ctx %s mode %s it %s' % (
                    sig[0], sig[1], sig[2], sig[3], desc['word'], kind, ctxkey, mode, desc['it']),
                    replay=pre, count=0)
            self.viol[key]['count'] += 1
            self.bump('outcome_host_error')
            return 'host'
        if k == 'notimpl':
            outcome = 'notimpl'
        elif post_mode != pre_mode or cpu.registers.pc_store_value() in VECTORS:
            outcome = 'exc-%s' % format(post_mode, '05b')
        else:
            outcome = 'done'
        self.bump('outcome_' + outcome)
        if executed != 'NoneType' or outcome.startswith('exc'):
            self.res['nontrivial'].add('%s|%s|%s|%s|%s' % (kind, tag, outcome, ctxkey[0] + '/' + ctxkey[1], itpos))
        self.res['sets']['contexts'].add('%s/%s/%s/%s/ns%d' % (ctxkey[0], ctxkey[1], mode, kind, ns))
        if len(self.res['samples']) < 3 and rng.random() < 0.01:
            self.res['samples'].append(dict(desc, outcome=outcome, executed=executed))
        return outcome


VECTORS = set()
HOSTILE_REGS = ('sctlr', 'ttbcr', 'ttbr0', 'ttbr0_64', 'ttbr1', 'ttbr1_64', 'dacr', 'prrr', 'nmrr', 'mair0', 'mair1', 'hcr', 'vtcr',
                'vttbr', 'htcr', 'httbr', 'hsctlr', 'hmair0', 'hmair1')


def hostile_mmu(cpu, cfg, rng, ns):
    """MMU on with translation registers pointing at whatever the RAM holds (pattern bytes, code, data): walks of
    both descriptor formats, stage 2 and TEX remap get exercised with arbitrary descriptors"""
    r = cpu.registers
    r.sctlr.m = 1
    r.sctlr.afe = rng.randrange(2)
    r.sctlr.tre = rng.randrange(2)
    r.sctlr.ee = 1 if rng.random() < 0.2 else 0
    eae = 1 if (cfg['have_lpae'] and rng.random() < 0.6) else 0
    r.ttbcr.value = (eae << 31) | (rng.getrandbits(31) if rng.random() < 0.5 else rng.choice([0, 1, 2, 7, 0x10, 0x20]))
    for name in ('ttbr0', 'ttbr0_64', 'ttbr1', 'ttbr1_64'):
        setattr(r, name, rng.choice([0x0, 0x1000, 0x4000, 0x10000, 0x7000, rng.getrandbits(32)]))
    r.dacr.value = rng.getrandbits(32)
    r.prrr.value = rng.getrandbits(32)
    r.nmrr.value = rng.getrandbits(32)
    r.mair0 = rng.getrandbits(32)
    r.mair1 = rng.getrandbits(32)
    if cfg['have_virt_ext']:
        r.hcr.vm = 1 if (ns and rng.random() < 0.5) else 0
        r.hcr.dc = rng.randrange(2) if rng.random() < 0.2 else 0
        # VTCR: only architecturally consistent SL0/T0SZ pairs (others make the stage-2 base UNPREDICTABLE)
        sl0 = rng.randrange(2)
        t0 = rng.randrange(-2, 8) if sl0 == 0 else rng.randrange(-8, 2)
        r.vtcr.value = (rng.getrandbits(32) & 0x3F00) | (sl0 << 6) | ((t0 & 0xF) | ((1 << 4) if t0 < 0 else 0)) | (1 << 31)
        r.vttbr = rng.choice([0x0, 0x4000, 0x10000, rng.getrandbits(40)])
        r.htcr.value = rng.getrandbits(32) if rng.random() < 0.5 else 0
        r.httbr = rng.choice([0x0, 0x4000, rng.getrandbits(40)])
        r.hsctlr.m = rng.randrange(2)
        r.hmair0 = rng.getrandbits(32)
        r.hmair1 = rng.getrandbits(32)


ROW_FAMILY = ('ls', 'ldm', 'stm', 'push', 'pop', 'ldm_eret', 'ldm_user', 'stm_user', 'srs', 'rfe', 'tbb', 'ldrex', 'strex', 'swp')
ROW_CTXS = [('v7-vmsa-virt', 'off'), ('v7-vmsa-sec', 'off'), ('v7-pmsa-r', 'off'), ('v6-pmsa-sec', 'off'), ('v6-pmsa', 'off'),
            ('v5-pmsa', 'off'), ('v4-pmsa', 'off'), ('v6-vmsa', 'off'), ('v7-vmsa-virt-impdef', 'off'), ('v6-pmsa-sec', 'mpu'),
            ('v7-vmsa-sec', 'mmu'), ('v7-vmsa-virt', 'mmu-ld'), ('v7-vmsa-virt', 's2'), ('v7-vmsa-virt', 's2')]


def run_shard(spec):
    from vf import trace_decode as td
    if spec['kind'] == 'walks':
        from vf.props import c15
        return c15.decision(spec, pid=ID, host_only=True)
    if spec['kind'] == 'rows':
        def after(ctx, rng, desc):
            r = ctx.cpu.registers
            if ctx.cfg['arch_version'] >= 7:
                r.sctlr.u = 1
            elif ctx.cfg['arch_version'] == 6:
                r.sctlr.u = rng.randrange(2)
            r.sctlr.a = 1 if rng.random() < 0.2 else 0
            if ctx.prot == 's2' and desc.get('ns') == 1 and desc.get('mode') not in ('hyp', 'mon'):
                # second stage of translation on: accesses to the two invalid gigabytes of the stage-2 map fault to Hyp mode
                # with the load/store instruction syndrome of the executing instruction class in HSR
                r.hcr.vm = 1
                desc['stage2'] = True
        # targets: the boundaries of the lock-step checks plus plain addresses INSIDE a RAM device in every alignment class
        # (the access that simply succeeds is what takes an instruction down its deepest path)
        targets = L.BOUNDARY_TARGETS + [0x100, 0x108, 0x110, 0x1F8, 0x104, 0x10C, 0x102, 0x101, 0x10800, 0x10808, 0x11000,
                                        0x11008, 0x10804, 0x7000, 0x7008, 0xFFFFF800, 0xFFFFF808, 0xFFFFF804] * 2
        targets += [0x80000010, 0x80000008, 0x40000000, 0x7FFFFFFC, 0xBFFFFFF8, 0x80000002] * 2     # (invalid at stage 2 in the 's2' context)
        return L.run_rows(ID, spec, ROW_FAMILY, ctxs=ROW_CTXS, after=after, solve_addr=0.85, host_only=True, solve_targets=targets)
    mon = Mon(spec)
    rng = mon.rng
    kind = spec['kind']
    if kind == 't16':
        for w in range(spec['lo'], spec['hi']):
            if (w >> 11) in (0b11101, 0b11110, 0b11111):
                continue
            for itpos in ('out', 'mid', 'last'):
                for _ in range(spec['reps']):
                    mon.one('t16', w, 'w%03x' % (w >> 4), itpos=itpos)
        mon.bump('t16_words_covered', spec['hi'] - spec['lo'])
    elif kind == 'paths':
        cubes, info = td.all_paths(random.Random(spec['seed']))
        for name in ('arm', 't32'):
            if not (info[name]['complete'] and info[name]['partition_ok']):
                mon.bump('path_enumeration_incomplete')
            mon.bump('paths_total_' + name, len(cubes[name]) if spec['shard'] == 0 else 0)
            for pi, (m, v, ds, out, wit) in enumerate(cubes[name]):
                if pi % spec['of'] != spec['shard'] or out.startswith('#'):
                    continue
                mon.bump('paths_visited_' + name)
                for j in range(spec['per_path']):
                    if j == 0:
                        w = wit
                    elif j == 1:
                        w = td.solve_c(m, v, ds, 32, None) or wit            # all free bits zero
                    elif j == 2:
                        w = td.solve_c(m, v | (~m & 0xFFFFFFFF), ds, 32, None) if not ds else td.sample(m, v, ds, 32, rng)
                    else:
                        w = td.sample(m, v, ds, 32, rng)
                    if w is None:
                        continue
                    mon.one(name, w, 'p%d' % pi)
    elif kind == 'random':
        for i in range(spec['n']):
            k = ('arm', 't32', 't16')[i % 3]
            if k == 'arm':
                w = rng.getrandbits(32)
            elif k == 't32':
                w = (rng.choice([0b11101, 0b11110, 0b11111]) << 27) | rng.getrandbits(27)
            else:
                w = rng.getrandbits(16)
                if (w >> 11) in (0b11101, 0b11110, 0b11111):
                    w &= 0x7FFF
            mon.one(k, w, 'r%d' % (w >> (28 if k != 't16' else 12)))
    elif kind == 'programs':
        programs(mon, spec)
    elif kind == 'sysregs':
        sysregs(mon, spec)
    mon.res['violations'] = list(mon.viol.values())
    return mon.res


def type_map(cpu):
    """type of every attribute of the register file (and of every element of its lists): a step must never
    replace a register object by something else"""
    out = {}
    # attributes of the processor object itself: a step must not add one (an instance attribute that shadows a method) nor
    # change the type of one
    for k, v in vars(cpu).items():
        if k not in ('executed_opcode', 'opcode', 'opcode_len'):
            out['cpu.' + k] = type(v).__name__
    for k, v in vars(cpu.registers).items():
        if isinstance(v, (list, tuple)):
            out[k] = tuple(type(x).__name__ for x in v)
        elif isinstance(v, dict):
            out[k] = tuple(sorted((str(a), type(b).__name__) for a, b in v.items()))
        else:
            out[k] = type(v).__name__
    return out


SYS_CTXS = [('v7-vmsa-virt', 'off'), ('v6-pmsa-sec', 'off'), ('v7-pmsa-r', 'off'), ('v7-vmsa-sec', 'off'), ('v6-vmsa', 'off')]


def sysregs(mon, spec):
    """MCR then MRC (and MCRR / MRRC) for every register address of one (coproc, opc1) slice, in ARM and Thumb state,
    from a privileged mode, on one instance whose state is carried from step to step."""
    from vf import scen, machine as M
    rng = mon.rng
    cp, opc1 = spec['cp'], spec['opc1']
    for rnd in range(spec['rounds']):
        ctxkey = SYS_CTXS[(spec['shard'] + rnd) % len(SYS_CTXS)]
        ctx = mon.ctx(ctxkey)
        ns = 0
        # even rounds: a privileged mode with the access-control registers at their reset values; odd rounds: User mode
        # (or a privileged one) with every access-control bit flipped (TEECR.XED, CPACR, NSACR, HCPTR, HSTR, ...)
        flipped = rnd % 2 == 1
        if flipped and rnd % 4 == 1:
            mode = 'usr'
            ns = rng.randrange(2) if ctx.cfg['have_security_ext'] else 0
        else:
            mode = rng.choice([m for m in ctx.legal_modes(ns) if m not in ('usr', 'hyp')])
        thumb = (rnd // 2) % 2 == 1
        desc = scen.prepare(ctx, rng, 't32' if thumb else 'arm', 0xE1A00000, mode=mode, itpos='out', ns=ns)
        cpu = ctx.cpu
        if flipped:
            r_ = cpu.registers
            for name in ('teecr', 'cpacr', 'nsacr', 'hcptr', 'hstr'):
                reg = getattr(r_, name, None)
                if reg is not None and hasattr(reg, 'value'):
                    reg.value = ~reg.value & 0xFFFFFFFF
            desc['access_controls_flipped'] = True
        tm0 = type_map(cpu)
        home = cpu.registers.cpsr.value
        words = []
        for crn in range(16):
            for crm in range(16):
                for opc2 in range(8):
                    rt = rng.choice([0, 1, 2, 3, 12, 14])
                    base = 0xEE000010 | (opc1 << 21) | (crn << 16) | (rt << 12) | (cp << 8) | (opc2 << 5) | crm
                    words.append(base)                    # MCR
                    words.append(base | (1 << 20))        # MRC
        for crm in range(16):
            for o4 in range(16):
                base = 0xEC400000 | (rng.choice([1, 2, 3]) << 16) | (rng.choice([4, 5, 6]) << 12) | (cp << 8) | (o4 << 4) | crm
                if o4 >> 1 == opc1:
                    words.append(base)                    # MCRR
                    words.append(base | (1 << 20))        # MRRC
        tainted = False
        for pass_ in range(2):
            if pass_ == 1:
                if not tainted:
                    break
                mon.bump('confirmation_sweeps_after_attribute_change')
            for i, w in enumerate(words):
                try:
                    cpu.registers.cpsr.value = home
                    cpu.registers.branch_to(scen.CODE)
                    M.put_code(cpu, scen.CODE, w, 't32' if thumb else 'arm')
                except Exception as ex:
                    key = 'C18|state-corrupted|%s' % type(ex).__name__
                    if key not in mon.viol:
                        mon.viol[key] = dict(key=key, desc='harness could not reposition the instance before word %#x of the '
                                             'system-register sweep (%s): %r' % (w, ctxkey, ex), count=0,
                                             replay=dict(desc, sweep=[hex(x) for x in words[max(0, i - 4):i + 1]]))
                    mon.viol[key]['count'] += 1
                    break
                k, sig = scen.step(cpu)
                mon.res['evaluations'] += 1
                mon.bump('sysreg_steps')
                if k == 'host':
                    key = 'C18|%s|%s:%s' % (sig[0], sig[1].split('/')[-1], sig[2])
                    if key not in mon.viol:
                        mon.viol[key] = dict(key=key, desc='%s at %s:%s line %s; system-register sweep word %#x (%s) after %s on %s' % (
                            sig[0], sig[1], sig[2], sig[3], w, 'thumb' if thumb else 'arm', hex(words[i - 1]) if i else '-', ctxkey),
                            count=0, replay=dict(desc, sweep=[hex(x) for x in words[max(0, i - 4):i + 1]]))
                    mon.viol[key]['count'] += 1
                    mon.bump('outcome_host_error')
                else:
                    mon.bump('sysreg_outcome_' + k)
                if i % 64 == 63 or i == len(words) - 1:
                    tm = type_map(cpu)
                    if tm != tm0:
                        changed = sorted(k_ for k_ in tm0 if tm.get(k_) != tm0[k_])[:4]
                        # not itself a violation: the sweep goes on over the same instance (and is repeated once more
                        # below), so a host error caused by the replaced object is what gets reported
                        mon.bump('sweeps_that_retyped_a_register_attribute')
                        mon.res['sets'].setdefault('attributes_added_or_retyped_by_a_step', set()).add(','.join(changed)[:80])
                        tainted = True
                        tm0 = tm
                    mon.bump('type_audits')
        mon.res['nontrivial'].add('sysregs|cp%d|opc1=%d|%s|%s|%s|%s' % (cp, opc1, ctxkey[0], 'thumb' if thumb else 'arm', mode,
                                                                           'flipped' if flipped else 'reset'))
        # the instance must still reset and run ordinary code
        try:
            cpu.take_reset()
            mon.bump('resets_after_sweep')
        except NotImplementedError:
            pass
        except Exception as ex:
            from vf.common import exc_signature
            sig = exc_signature(ex)
            key = 'C18|%s|%s:%s|take_reset-after-sweep' % (sig[0], sig[1].split('/')[-1], sig[2])
            if key not in mon.viol:
                mon.viol[key] = dict(key=key, desc='take_reset() after the system-register sweep on %s: %s' % (ctxkey, sig), count=0,
                                     replay=dict(desc))
            mon.viol[key]['count'] += 1


def programs(mon, spec):
    """Random words laid out in RAM, stepped up to N times following wherever the PC goes."""
    from vf import scen, machine as M
    rng = mon.rng
    for p in range(spec['n']):
        ctxkey = CTXS[rng.randrange(len(CTXS))]
        ctx = mon.ctx(ctxkey)
        ns = rng.randrange(2) if ctx.cfg['have_security_ext'] else 0
        mode = rng.choice(ctx.legal_modes(ns))
        thumb = rng.random() < 0.5
        desc = scen.prepare(ctx, rng, 't16' if thumb else 'arm', 0xBF00 if thumb else 0xE1A00000, mode=mode, itpos='out', ns=ns)
        cpu = ctx.cpu
        blob = bytes(rng.getrandbits(8) for _ in range(0x400))
        M.poke(cpu, scen.CODE, blob)
        # exception vectors land in mapped RAM at 0 with more random code
        M.poke(cpu, 0, bytes(rng.getrandbits(8) for _ in range(0x100)))
        trace = []
        tm0 = type_map(cpu)
        for s in range(spec['steps']):
            pc = cpu.registers.pc_store_value()
            k, sig = scen.step(cpu)
            mon.res['evaluations'] += 1
            trace.append('%#x' % pc)
            if k == 'host':
                key = 'C18|%s|%s:%s' % (sig[0], sig[1].split('/')[-1], sig[2])
                if key not in mon.viol:
                    mon.viol[key] = dict(key=key, desc='%s at %s:%s line %s in program step %d (pc %#x, word %#x)' % (
                        sig[0], sig[1], sig[2], sig[3], s, pc, cpu.opcode), count=0,
                        replay=dict(desc, program=blob.hex(), vectors=True, steps=s + 1, note='program'))
                mon.viol[key]['count'] += 1
                mon.bump('outcome_host_error')
                break
            mon.bump('program_steps_' + k)
            # states reached by random code are not guaranteed valid: stop when the mode is illegal
            if cpu.registers.bad_mode(cpu.registers.cpsr.m):
                mon.bump('program_left_valid_state_space')
                break
        mon.res['nontrivial'].add('prog|%s|%d' % (ctxkey[0], len(set(trace))))
        tm = type_map(cpu)
        mon.bump('type_audits')
        if tm != tm0:
            changed = sorted(k_ for k_ in tm0 if tm.get(k_) != tm0[k_])[:4]
            # not itself a violation: the instance is kept for the following programs of this shard, where a host error
            # caused by the replaced object is reported under its own key
            mon.bump('programs_that_retyped_a_register_attribute')
            mon.res['sets'].setdefault('attributes_added_or_retyped_by_a_step', set()).add(','.join(changed)[:80])


def replay(data):
    from vf import scen
    rp = data['replay']
    mon = Mon(dict(kind='replay', seed=0, shard=0))
    ctx = mon.ctx(tuple(rp['ctx']))
    rng = random.Random(0)
    regs = [int(x, 16) for x in rp['regs']]
    scen.prepare(ctx, rng, rp['kind'], int(rp['word'], 16), mode=rp['mode'], itpos='out', ns=rp['ns'], regs=regs)
    cpu = ctx.cpu
    cpu.registers.cpsr.value = int(rp['cpsr'], 16)
    for k_, v in (rp.get('hostile_mmu') or {}).items():
        reg = getattr(cpu.registers, k_)
        if hasattr(reg, 'value'):
            reg.value = v
        else:
            setattr(cpu.registers, k_, v)
    if rp.get('nsacr'):
        cpu.registers.nsacr.value = int(rp['nsacr'], 16)
    if rp.get('sctlr_ua'):
        cpu.registers.sctlr.u, cpu.registers.sctlr.a = rp['sctlr_ua']
    out = dict(evaluations=1, violations=[])
    k, sig = scen.step(cpu)
    if k == 'host':
        out['violations'].append(dict(key='C18|%s|%s:%s' % (sig[0], sig[1].split('/')[-1], sig[2]), desc=str(sig)))
    return out


def finish(agg, tier, seed):
    inc = []
    c = agg['counters']
    if c.get('t16_words_covered', 0) != 65536:
        inc.append('Thumb-16 space not covered completely (%d)' % c.get('t16_words_covered', 0))
    if c.get('path_enumeration_incomplete', 0):
        inc.append('decoder path enumeration incomplete or partition check failed')
    for n in ('arm', 't32'):
        if c.get('paths_visited_' + n, 0) < c.get('paths_total_' + n, 1) - 3:
            inc.append('not every %s decoder path visited: %d of %d' % (n, c.get('paths_visited_' + n, 0),
                                                                       c.get('paths_total_' + n, 0)))
    if c.get('outcome_done', 0) < 1000:
        inc.append('too few completed steps')
    if c.get('steps_with_hostile_mmu_setup', 0) < 2000:
        inc.append('too few steps under a hostile MMU set-up (%d)' % c.get('steps_with_hostile_mmu_setup', 0))
    if c.get('sysreg_steps', 0) < 2 * 16 * 4096 or c.get('type_audits', 0) < 1000:
        inc.append('system-register sweep incomplete (%d steps, %d type audits)' % (c.get('sysreg_steps', 0), c.get('type_audits', 0)))
    if c.get('row_steps_ok', 0) < 5000 or c.get('addresses_solved_base', 0) < 1000:
        inc.append('too few row-generated data-access steps (%d, %d with a solved address)' % (c.get('row_steps_ok', 0), c.get('addresses_solved_base', 0)))
    if c.get('row_steps_stage2_abort_taken_to_hyp', 0) < 200:
        inc.append('too few stage-2 aborts taken to Hyp mode (%d)' % c.get('row_steps_stage2_abort_taken_to_hyp', 0))
    if c.get('walks_ok', 0) < 300 or c.get('walks_abort', 0) < 300:
        inc.append('too few translation walks over generated tables (%d completed, %d aborted)' % (c.get('walks_ok', 0), c.get('walks_abort', 0)))
    return dict(inconclusive=inc, coverage=dict(
        exhaustive_subspaces=['all 2^16 Thumb-16 words x {outside IT, inside, last}',
                              'every feasible path of the real ARM / Thumb-32 decoders visited at least once',
                              'every MCR/MRC register address (opc1, CRn, CRm, opc2) of cp14 and cp15, written then read'],
        explanation='exhaustive only for the sub-spaces named; everything else sampled'))
