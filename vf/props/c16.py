"""C16 — memory hub: a small sequential device model checked after EVERY operation of random
read/write histories, byte for byte over all devices, plus an icontract class invariant
len(memory_array) == size installed on the repository's RAM class."""
from vf.common import use_repo, rng_for, exc_signature, ensure_deps
use_repo()

ID = 'C16'
LEVEL = 'exploration'
RULE = ('case = one read/write of size 1/2/4/8 in a random history (200 ops) over a generated controller list '
        '(1-6 devices, sizes 0..64 incl. odd, adjacent/gapped/overlapping/ending at 2^32/straddling 2^32/above 4 GB: physical '
        'addresses are 40 bits); in 40% of the histories the registry itself changes between accesses of the same hub object '
        '(a device replaced by one elsewhere, unplugged and another plugged in, moved, inserted in front, added, removed, mirrored by a second window onto the same device object); after every op all '
        'devices are compared byte for byte with a first-match-wins list-of-bytearrays model; controllers whose window is longer than their RAM (bytes beyond the RAM behave like a device end); non-trivial = the op '
        'hits a mapped device; distinct = (op, size, position class relative to device end/start, layout class, '
        'hit-device index)')
ASSUMPTIONS = ['the 15-line sequential device model in vf/props/c16.py is the meaning of the property',
               'for an access that starts inside a device and runs past its end only what the property states is '
               'demanded: no growth, no spill, no host error, in-device bytes written or untouched, value read in range']


def plan(tier, seed):
    n = 16 if tier == 'quick' else 64
    hist = 320 if tier == 'quick' else 8000
    return [dict(seed=seed, shard=i, histories=hist) for i in range(n)]


class InvariantBroken(Exception):
    pass


_inv_evals = [0]


def ram_size_stable(self):
    _inv_evals[0] += 1
    return len(self.memory_array) == self.size


def _install_invariant():
    import icontract
    from armulator.armv6 import memory_types
    if getattr(memory_types.RAM, '_vf_inv', False):
        return
    icontract.invariant(ram_size_stable, error=InvariantBroken)(memory_types.RAM)
    memory_types.RAM._vf_inv = True


def gen_layout(rng):
    kind = rng.choice(['single', 'adjacent', 'gapped', 'overlap', 'top', 'mixed', 'mixed', 'high', 'straddle4g', 'oversized-window'])
    devs = []
    n = 1 if kind == 'single' else rng.randrange(2, 7)
    base = rng.choice([0, 0x10, 0x1000, 0x7FFFFFF0, 0xF0000000])
    cur = base
    for i in range(n):
        size = rng.choice([1, 2, 3, 4, 5, 7, 8, 9, 15, 16, 17, 31, 32, 33, 63, 64, rng.randrange(0, 65)])
        if kind == 'adjacent':
            b = cur
        elif kind == 'gapped':
            b = cur + rng.randrange(1, 12)
        elif kind == 'overlap':
            b = max(base, cur - rng.randrange(0, 12))
        elif kind == 'top':
            b = cur
        else:
            b = cur + rng.choice([0, 0, 1, 3, 8]) - rng.choice([0, 0, 2, 5])
            b = max(0, b)
        devs.append([b, b + size])
        cur = b + size
    if kind == 'top':
        # shift so that the last device ends exactly at 2^32
        shift = (1 << 32) - devs[-1][1]
        devs = [[b + shift, e + shift] for b, e in devs]
    elif kind == 'high':
        # physical addresses are 40 bits wide (large physical address extension, supersections): devices above 4 GB
        shift = rng.choice([1 << 32, (1 << 32) + 0x1000, 0xFF00000000, (1 << 40) - 0x1000]) - devs[0][0]
        devs = [[b + shift, min(e + shift, 1 << 40)] for b, e in devs]
        devs = [[b, max(b, e)] for b, e in devs]
    elif kind == 'straddle4g':
        shift = (1 << 32) - devs[len(devs) // 2][0] - rng.choice([0, 1, 3, 4, 7])
        devs = [[b + shift, e + shift] for b, e in devs if b + shift >= 0]
        if not devs:
            devs = [[(1 << 32) - 4, (1 << 32) + 4]]
    rng.shuffle(devs) if rng.random() < 0.3 else None
    return kind, devs


def _apply_registry(hub, devs, model, mut):
    """one registry change on the real hub and on the model (devs = [[begin, end], ...], model = bytearrays)"""
    from armulator.armv6.memory_controller_hub import MemoryController
    from armulator.armv6.memory_types import RAM
    kind = mut[0]

    def fresh(b, e, salt):
        mc = MemoryController(RAM(e - b), b, e)
        img = bytearray(((b + i) * 13 + salt) & 0xFF for i in range(e - b))
        mc.mem.memory_array[:] = img
        return mc, img
    if kind == 'replace':
        _, i, b, e, salt = mut
        mc, img = fresh(b, e, salt)
        hub.memories[i] = mc
        devs[i] = [b, e]
        model[i] = img
    elif kind == 'unplug-plug':
        _, i, b, e, salt = mut
        mc, img = fresh(b, e, salt)
        hub.memories.pop(i)
        devs.pop(i)
        model.pop(i)
        hub.memories.append(mc)
        devs.append([b, e])
        model.append(img)
    elif kind == 'move':
        _, i, b = mut
        ln = devs[i][1] - devs[i][0]
        hub.memories[i].beginning = b
        hub.memories[i].end = b + ln
        devs[i] = [b, b + ln]
    elif kind == 'insert-front':
        _, b, e, salt = mut
        mc, img = fresh(b, e, salt)
        hub.memories.insert(0, mc)
        devs.insert(0, [b, e])
        model.insert(0, img)
    elif kind == 'add':
        _, b, e, salt = mut
        hub.add_memory('RAM', b, e)
        img = bytearray(((b + i) * 13 + salt) & 0xFF for i in range(e - b))
        hub.memories[-1].mem.memory_array[:] = img
        devs.append([b, e])
        model.append(img)
    elif kind == 'remove':
        _, i = mut
        hub.memories.pop(i)
        devs.pop(i)
        model.pop(i)
    elif kind == 'mirror':
        # a second window onto the SAME device object (a mirror, or one RAM decoded at two addresses): both windows reach
        # the same bytes, each with its own offset
        _, i, b = mut
        ln = devs[i][1] - devs[i][0]
        hub.memories.append(MemoryController(hub.memories[i].mem, b, b + ln))
        devs.append([b, b + ln])
        model.append(model[i])


def _mutate_registry(rng, hub, devs, model):
    kind = rng.choice(['replace', 'replace', 'unplug-plug', 'unplug-plug', 'move', 'move', 'insert-front', 'add', 'remove', 'mirror', 'mirror'])
    if kind == 'remove' and len(devs) < 2:
        kind = 'replace'
    lo = min(b for b, e in devs)
    hi = max(e for b, e in devs)
    size = rng.choice([1, 4, 8, 9, 16, 33, 64])
    # the new window: beyond either end of what the registry has decoded so far, adjacent to it, or inside it
    b = rng.choice([hi, hi + rng.randrange(0, 40), max(0, lo - size), max(0, lo - size - rng.randrange(0, 40)),
                    rng.randrange(lo, hi + 1), (hi + 0x1000) & ((1 << 40) - 1)])
    b = min(b, (1 << 40) - size)
    e = b + size
    salt = rng.randrange(256)
    i = rng.randrange(len(devs))
    if kind in ('replace', 'unplug-plug'):
        mut = [kind, i, b, e, salt]
    elif kind == 'move':
        if len(model[i]) != devs[i][1] - devs[i][0]:
            mut = ['replace', i, b, e, salt]
        else:
            mut = [kind, i, min(b, (1 << 40) - (devs[i][1] - devs[i][0]))]
    elif kind in ('insert-front', 'add'):
        mut = [kind, b, e, salt]
    elif kind == 'mirror':
        if len(model[i]) != devs[i][1] - devs[i][0]:
            mut = ['replace', i, b, e, salt]
        else:
            mut = [kind, i, min(b, (1 << 40) - (devs[i][1] - devs[i][0]))]
    else:
        mut = [kind, i]
    _apply_registry(hub, devs, model, mut)
    return mut


def run_shard(spec):
    ensure_deps()
    _install_invariant()
    from armulator.armv6.memory_controller_hub import MemoryControllerHub
    from armulator.armv6.address_descriptor import AddressDescriptor
    rng = rng_for('C16', spec['seed'], spec['shard'])
    res = dict(evaluations=0, nontrivial=set(), counters={}, violations=[], samples=[], sets={})
    cnt = res['counters']
    viol = {}

    def bump(k, n=1):
        cnt[k] = cnt.get(k, 0) + n

    def report(key, desc, replay):
        if key not in viol:
            viol[key] = dict(key=key, desc=desc, replay=replay, count=0)
        viol[key]['count'] += 1

    for h in range(spec['histories']):
        kind, devs = gen_layout(rng)
        if kind == 'oversized-window':
            # a controller whose address window is longer than the RAM behind it (built as in the README): the bytes of the
            # window beyond the RAM behave like the end of a device - nothing stored, nothing grown
            from armulator.armv6.memory_controller_hub import MemoryController
            from armulator.armv6.memory_types import RAM
            hub = MemoryControllerHub()
            for b, e in devs:
                hub.memories.append(MemoryController(RAM(max(0, (e - b) - rng.randrange(0, 13))), b, e))
            model = [bytearray(len(m.mem.memory_array)) for m in hub.memories]
        else:
            hub = MemoryControllerHub.from_memory_list([dict(mem_type='RAM', beginning=b, end=e) for b, e in devs])
            model = [bytearray(e - b) for b, e in devs]
        ops = []
        # pre-fill through the model and the backing arrays identically (position-dependent pattern)
        for di, (b, e) in enumerate(devs):
            for i in range(len(model[di])):
                v = ((b + i) * 7 + di * 31 + 1) & 0xFF
                model[di][i] = v
                hub.memories[di].mem.memory_array[i] = v
        tag = 0
        devs0 = [list(d) for d in devs]
        mutating = rng.random() < 0.4
        for step in range(200):
            if mutating and rng.random() < 0.05:
                # the registry itself changes between two accesses of the SAME hub object (the README registers devices by
                # appending to hub.memories): a device is swapped for another one somewhere else, unplugged and another
                # plugged in, moved, put in front of the others, added or removed.  The next accesses must be decoded by the
                # registry as it is now.
                mut = _mutate_registry(rng, hub, devs, model)
                ops.append(['registry'] + mut)
                bump('registry_' + mut[0])
                if not devs:
                    break
            size = rng.choice([1, 2, 4, 8])
            di = rng.randrange(len(devs))
            b, e = devs[di]
            r = rng.random()
            if r < 0.45:
                addr = e - rng.randrange(0, 10)       # last bytes of a device, straddling included
            elif r < 0.65:
                addr = b - rng.randrange(0, 10) + rng.randrange(0, 3)   # around the start
            elif r < 0.9 and e > b:
                addr = rng.randrange(b, e)
            else:
                addr = rng.choice([0, 0xFFFFFFFF, 0xFFFFFFF8, b + 0x100, rng.getrandbits(32), rng.getrandbits(40), 0xFFFFFFFC, 0x100000000])
            if rng.random() < 0.06 and e > b:
                addr = rng.randrange(b, e) + (rng.randrange(1, 256) << 32)     # aliases a window modulo 2^32 (or lies in a 'high' one)
            addr &= (1 << 40) - 1
            is_write = rng.random() < 0.55
            tag += 1
            value = int.from_bytes(bytes(((tag * 8 + i) * 37 + 11) & 0xFF for i in range(size)), 'little')
            # ---- model ----
            hit = None
            for j, (mb, me) in enumerate(devs):
                if mb <= addr < me:
                    hit = j
                    break
            dend = (devs[hit][0] + len(model[hit])) if hit is not None else None      # end of the bytes that exist
            straddle = hit is not None and addr + size > dend
            pos = 'unmapped' if hit is None else ('straddle%d' % (dend - addr) if straddle else
                                                  ('last' if addr + size == dend else
                                                   ('first' if addr == devs[hit][0] else 'inside')))
            res['evaluations'] += 1
            opname = 'write' if is_write else 'read'
            bump('%s_%s' % (opname, 'unmapped' if hit is None else ('straddle' if straddle else 'inside')))
            if hit is not None:
                res['nontrivial'].add('%s|%d|%s|%s|dev%d' % (opname, size, pos, kind, hit))
            ad = AddressDescriptor()
            ad.paddress.physicaladdress = addr
            # the other fields of the descriptor (security attribute of the address, memory attributes) are not part of the
            # routing: a Non-secure access to the same physical address reaches the same bytes
            ns_attr = 1 if rng.random() < 0.3 else 0
            ad.paddress.ns = ns_attr
            if ns_attr:
                bump('accesses_with_ns_attribute')
                ad.memattrs.shareable = bool(rng.randrange(2))
                ad.memattrs.outershareable = bool(rng.randrange(2))
            ops.append([opname, addr, size, value if is_write else None, ns_attr])
            replay = dict(devs=devs0, ops=list(ops))
            mech = '%s|%s' % (opname, 'unmapped' if hit is None else ('straddle' if straddle else 'inside'))
            try:
                if is_write:
                    hub[ad, size] = value
                    got = None
                else:
                    got = hub[ad, size]
            except InvariantBroken:
                report('C16|resize(invariant)|' + mech, 'RAM invariant len(memory_array)==size broken', replay)
                break
            except Exception as ex:      # host-level error
                sig = exc_signature(ex)
                report('C16|host-error|%s|%s|%s' % (sig[0], sig[2], mech),
                       '%s in %s:%s for %s of %d bytes at %#x' % (sig[0], sig[1], sig[2], opname, size, addr), replay)
                break
            # ---- oracle ----
            bad = None
            if is_write:
                if hit is not None and not straddle:
                    off = addr - devs[hit][0]
                    model[hit][off:off + size] = value.to_bytes(size, 'little')
                elif hit is not None and straddle:
                    off = addr - devs[hit][0]
                    real = hub.memories[hit].mem.memory_array
                    n_in = max(0, dend - addr)
                    if len(real) == len(model[hit]):
                        newb = value.to_bytes(size, 'little')[:n_in]
                        if bytes(real[off:]) == newb:
                            model[hit][off:] = newb          # in-device bytes written: allowed
                        # else: must be untouched, checked by the byte compare below
            else:
                if hit is None:
                    exp = 0
                    if got != 0:
                        bad = 'unmapped read returned %r' % (got,)
                elif not straddle:
                    off = addr - devs[hit][0]
                    exp = int.from_bytes(model[hit][off:off + size], 'little')
                    if got != exp or type(got) is not int:
                        bad = 'read %r, model %#x' % (got, exp)
                else:
                    if type(got) is not int or not (0 <= got < (1 << (8 * size))):
                        bad = 'straddling read returned out-of-range %r' % (got,)
            if bad is None:
                for j in range(len(devs)):
                    real = hub.memories[j].mem.memory_array
                    if len(real) != len(model[j]) or hub.memories[j].mem.size != len(model[j]):
                        bad = 'device %d changed size %d -> %d' % (j, len(model[j]), len(real))
                        mech2 = 'resize'
                        break
                    if real != model[j]:
                        first = next(i for i in range(len(real)) if real[i] != model[j][i])
                        bad = 'device %d byte %d is %#x, model %#x (hit device %s)' % (j, first, real[first],
                                                                                      model[j][first], hit)
                        mech2 = 'bytes' if j == hit else 'spill-other-device'
                        break
            else:
                mech2 = 'value'
            if bad is not None:
                report('C16|%s|%s' % (mech2, mech), bad + ' after %s size %d at %#x' % (opname, size, addr), replay)
                break
        if h < 2 and spec['shard'] == 0:
            res['samples'].append(dict(layout=kind, devices=devs, first_ops=ops[:6]))
    cnt['ram_invariant_evaluations'] = _inv_evals[0]
    res['violations'] = list(viol.values())
    return res


def replay(data):
    """Re-run a recorded history against the real hub; report the first disagreement again."""
    ensure_deps()
    from armulator.armv6.memory_controller_hub import MemoryControllerHub
    from armulator.armv6.address_descriptor import AddressDescriptor
    rp = data['replay']
    devs = rp['devs']
    hub = MemoryControllerHub.from_memory_list([dict(mem_type='RAM', beginning=b, end=e) for b, e in devs])
    sizes = [e - b for b, e in devs]
    out = dict(evaluations=len(rp['ops']), violations=[])
    model = [bytearray(e - b) for b, e in devs]
    devs = [list(d) for d in devs]
    for op in rp['ops']:
        if op[0] == 'registry':
            _apply_registry(hub, devs, model, op[1:])
            sizes = [len(m) for m in model]
            continue
        opname, addr, size, value, *rest = op
        ad = AddressDescriptor()
        ad.paddress.physicaladdress = addr
        ad.paddress.ns = rest[0] if rest else 0
        try:
            if opname == 'write':
                hub[ad, size] = value
            else:
                hub[ad, size]
        except Exception as ex:
            out['violations'].append(dict(key=data['key'], desc='host error ' + type(ex).__name__))
            return out
        if [len(m.mem.memory_array) for m in hub.memories] != sizes:
            out['violations'].append(dict(key=data['key'], desc='device resized'))
            return out
    return out


def finish(agg, tier, seed):
    inc = []
    c = agg['counters']
    for k in ('read_inside', 'write_inside', 'read_unmapped', 'write_unmapped', 'read_straddle', 'write_straddle'):
        if c.get(k, 0) < 100:
            inc.append('too few %s operations (%d)' % (k, c.get(k, 0)))
    if c.get('ram_invariant_evaluations', 0) == 0:
        inc.append('RAM invariant never evaluated')
    return dict(inconclusive=inc, coverage=dict(explanation='held on the histories above; nothing enumerated completely'))
