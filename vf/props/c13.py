"""C13 — memory access model.  Direct calls of the real MemA / MemU entry points over the whole
configuration matrix, compared with the reference memory model (value read, exact RAM diff, fault kind and
syndrome); reference-free store->load round trip; fetch monitor (the word handed to the decoder is the
little-endian word at the PC whatever CPSR.E says)."""
from vf.common import use_repo, rng_for
use_repo()

ID = 'C13'
LEVEL = 'exploration'
SHARD_TIMEOUT = {'quick': 900, 'thorough': 7200}
RULE = ('cell = (size in {1,2,4,8}) x (address offset 0..7) x CPSR.E x SCTLR.A x SCTLR.U x arch {5,6,7} x '
        '{privileged, unprivileged entry point} = 1536 cells, each exercised through mem_u_get/set, mem_a_get/set and the '
        'unprivileged variants with random data and random surrounding bytes, at addresses inside RAM, at the end of a RAM '
        'device and wrapping at 2^32; oracle = vf/ref/mem.py (value, byte-exact RAM diff, abort kind, DFSR/DFAR) + '
        'store->load round trip + instruction-fetch endianness; non-trivial = the access is unaligned or big-endian or '
        'faults; distinct = cell x entry point')
ASSUMPTIONS = ['vf/ref/mem.py transcribes MemA_with_priv / MemU_with_priv (B2.4.4) for ARMv5..7',
               'MPU/MMU off (protection is C14/C15)']

ARCH_CFG = {5: 'v5-pmsa', 6: 'v6-pmsa-sec', 7: 'v7-pmsa-r'}


def plan(tier, seed):
    reps = 12 if tier == 'quick' else 900
    n = 12 if tier == 'quick' else 48
    return [dict(seed=seed, shard=i, of=n, reps=reps) for i in range(n)]


def run_shard(spec):
    from vf import scen, machine as M, observe, lockstep
    from vf.ref.model import RefCPU, RefAbort, RefUnpredictable, RefNotModelled
    from vf.ref import mem as RM      # noqa
    from armulator.armv6.arm_exceptions import DataAbortException
    rng = rng_for(ID, spec['seed'], spec['shard'])
    ls = lockstep.LockStep(ID, rng)
    res = ls.res
    res['sets']['cells'] = set()
    cells = [(size, off, e, a, u, arch, priv) for size in (1, 2, 4, 8) for off in range(8) for e in (0, 1) for a in (0, 1)
             for u in (0, 1) for arch in (5, 6, 7) for priv in (1, 0)]
    for ci, (size, off, e, a, u, arch, priv) in enumerate(cells):
        if ci % spec['of'] != spec['shard']:
            continue
        ctx = ls.ctx((ARCH_CFG[arch], 'off'))
        for rep in range(spec['reps']):
            base = rng.choice([0x100, 0x1000, 0x7FF0, 0x7FF8, 0x11FF8, 0xFFFFFFF0, 0xFFFFFFF8, 0x11000])
            addr = (base + off) & 0xFFFFFFFF
            mode = 'usr' if (not priv and rng.random() < 0.5) else rng.choice(['svc', 'sys', 'irq'])
            scen.prepare(ctx, rng, 'arm', 0xE1A00000, mode=mode, e=e)
            cpu = ctx.cpu
            cpu.registers.sctlr.a = a
            cpu.registers.sctlr.u = u
            # random surroundings
            M.poke(cpu, (addr - 8) & 0xFFFFFFFF, bytes(rng.getrandbits(8) for _ in range(24)))
            value = rng.getrandbits(8 * size)
            for fn in (('u', 'get'), ('u', 'set'), ('a', 'get'), ('a', 'set')):
                M.activate(cpu)
                pre = observe.snapshot(cpu)
                ref = RefCPU(pre, ctx.cfg)
                is_set = fn[1] == 'set'
                if fn[0] == 'u':
                    name = ('mem_u_%s' if (priv or mode == 'usr') else 'mem_u_unpriv_%s') % fn[1]
                    rfn = ref.MemU if (priv or mode == 'usr') else ref.MemU_unpriv
                else:
                    name = 'mem_a_%s' % fn[1]
                    rfn = ref.MemA
                exp_exc = exp_val = None
                try:
                    exp_val = rfn(addr, size, value) if is_set else rfn(addr, size)
                except RefAbort as ab:
                    ref.abort_bookkeeping(ab)
                    exp_exc = ab.kind
                except (RefUnpredictable, RefNotModelled):
                    ls.bump('cells_unpredictable')
                    continue
                got_exc = got_val = None
                try:
                    if is_set:
                        getattr(cpu, name)(addr, size, value)
                    else:
                        got_val = getattr(cpu, name)(addr, size)
                except DataAbortException as ex:
                    got_exc = 'alignment' if ex.is_alignment_fault() else str(ex.abort_type)
                except Exception as ex:
                    got_exc = 'HOST:' + type(ex).__name__
                post = observe.snapshot(cpu)
                res['evaluations'] += 1
                cell = 's%d|o%d|E%d|A%d|U%d|v%d|%s' % (size, off, e, a, u, arch, 'priv' if priv else 'unpriv')
                res['sets']['cells'].add(cell)
                if off % size or e or exp_exc:
                    res['nontrivial'].add(cell + '|' + name)
                ls.bump('faults_expected' if exp_exc else 'accesses_expected_ok')
                why = None
                if exp_exc != got_exc:
                    why = 'fault: expected %s, got %s' % (exp_exc, got_exc)
                elif not is_set and exp_exc is None and got_val != exp_val:
                    why = 'value read %r, expected %#x' % (got_val, exp_val)
                else:
                    from vf.ref import step as RS
                    diffs = RS.compare(ref, post)
                    if diffs:
                        why = 'state after the access: %s' % [(l, hex(x) if isinstance(x, int) else x, hex(g) if isinstance(g, int) else g) for l, x, g in diffs[:3]]
                if why:
                    pol = 'aligned' if off % size == 0 else ('v7' if arch >= 7 else ('A' if a else ('U' if u else 'legacy')))
                    ls.report('C13|%s|%s|size%d|%s' % (name, pol, size, 'E1' if e else 'E0'),
                              '%s(%#x, %d%s) arch %d A=%d U=%d E=%d mode %s: %s' % (name, addr, size, ', %#x' % value if is_set else '',
                                                                                  arch, a, u, e, mode, why),
                              dict(cell=cell, addr=addr, value=value, name=name, mode=mode))
            # ---- reference-free round trip
            M.activate(cpu)
            mapped = all(any(b <= ((addr + i) & 0xFFFFFFFF) < e_ for b, e_ in scen.MEMS) for i in range(size))
            if not mapped:
                ls.bump('roundtrip_skipped_unmapped_bytes')     # bytes outside every device read as zero by definition
                continue
            try:
                cpu.mem_u_set(addr, size, value)
                back = cpu.mem_u_get(addr, size)
                ls.bump('roundtrips')
                if back != value and not (arch < 7 and not a and not u and off % size):
                    ls.report('C13|roundtrip|size%d|%s' % (size, 'E1' if e else 'E0'),
                              'stored %#x, loaded %#x at %#x' % (value, back, addr), dict(addr=addr, value=value))
            except DataAbortException:
                ls.bump('roundtrip_faulted')
    # ---- fetch monitor
    for i in range(400 if spec['reps'] < 100 else 20000):
        arch = rng.choice([5, 6, 7])
        ctx = ls.ctx((ARCH_CFG[arch], 'off'))
        kind = rng.choice(['arm', 't16', 't32'])
        w = rng.getrandbits(32) if kind != 't16' else rng.getrandbits(16)
        if kind == 't32':
            w = (rng.choice([0b11101, 0b11110, 0b11111]) << 27) | (w & 0x07FFFFFF)
        if kind == 't16' and (w >> 11) in (0b11101, 0b11110, 0b11111):
            w &= 0x7FFF
        e = rng.randrange(2)
        scen.prepare(ctx, rng, kind, w, mode='svc', e=e)
        got = ctx.cpu.fetch_instruction()
        res['evaluations'] += 1
        ls.bump('fetches_E%d' % e)
        if got != w:
            ls.report('C13|fetch|%s|E%d' % (kind, e), 'fetched %#x, the little-endian word at the PC is %#x' % (got, w),
                      dict(kind=kind, word=w, e=e))
    res['violations'] = list(ls.viol.values())
    return res


def replay(data):
    return dict(evaluations=0, violations=[])


def finish(agg, tier, seed):
    inc = []
    if len(agg['sets'].get('cells', ())) != 1536:
        inc.append('only %d of 1536 cells covered' % len(agg['sets'].get('cells', ())))
    if agg['counters'].get('fetches_E1', 0) < 100:
        inc.append('too few big-endian fetches')
    return dict(inconclusive=inc, coverage=dict(
        exhaustive_subspaces=['all 1536 cells of the (size, offset, E, A, U, arch, privilege) matrix visited'],
        cells=len(agg['sets'].get('cells', ())),
        explanation='every cell of the configuration matrix is exercised; data values and addresses are sampled'))
