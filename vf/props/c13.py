"""C13 — memory access model.  Direct calls of the real MemA / MemU entry points over the whole
configuration matrix, compared with the reference memory model (value read, exact RAM diff, fault kind and
syndrome); reference-free store->load round trip; fetch monitor (the word handed to the decoder is the
little-endian word at the PC whatever CPSR.E says)."""
from vf.common import use_repo, rng_for
use_repo()

ID = 'C13'
LEVEL = 'exploration'
SHARD_TIMEOUT = {'quick': 900, 'thorough': 7200}
RULE = ('cell = (size in {1,2,4,8}) x (address offset 0..7) x CPSR.E x SCTLR.A x SCTLR.U x arch {5,6,7} x '
        '{privileged, unprivileged entry point} = 1536 cells, each exercised through mem_u_get/set, mem_a_get/set and the '
        'unprivileged variants with random data and random surrounding bytes, at addresses inside RAM, at the end of a RAM '
        'device and wrapping at 2^32; oracle = vf/ref/mem.py (value, byte-exact RAM diff, abort kind, DFSR/DFAR) + '
        'store->load round trip + instruction-fetch endianness; instruction level: store/load pairs of every size and addressing form at offsets 0..7 in both endiannesses on LPAE and non-LPAE configurations (value, bytes in CPSR.E order, no other byte), legacy rotated word loads (LDR / LDRT, all addressing forms), and with the protection unit ON the equivalence of an unaligned access with its individual byte transfers (value, abort, DFAR/DFSR, memory); non-trivial = the access is unaligned or big-endian or '
        'faults; distinct = cell x entry point')
ASSUMPTIONS = ['vf/ref/mem.py transcribes MemA_with_priv / MemU_with_priv (B2.4.4) for ARMv5..7',
               'MPU/MMU off (protection is C14/C15)']

ARCH_CFG = {5: 'v5-pmsa', 6: 'v6-pmsa-sec', 7: 'v7-pmsa-r'}


def plan(tier, seed):
    reps = 12 if tier == 'quick' else 900
    n = 12 if tier == 'quick' else 48
    specs = [dict(seed=seed, shard=i, of=n, reps=reps) for i in range(n)]
    specs += [dict(kind='insn', seed=seed, shard=100 + i, n=2500 if tier == 'quick' else 120000) for i in range(4 if tier == 'quick' else 16)]
    specs += [dict(kind='bytewise', seed=seed, shard=200 + i, n=2500 if tier == 'quick' else 100000) for i in range(4 if tier == 'quick' else 16)]
    from vf.props import _lock as L
    specs += L.plan_rows(ID, LS_FAMILY, tier, seed, 60, 4000, 8, 32)
    return specs


# store / load instruction pairs of the same size and address: (name, size, signed load, kind, store word, load word,
# offset field setter).  Registers: r0 base, r1 index, r2:r3 stored, r4:r5 loaded.
def _imm12(w, imm):
    return w | (imm & 0xFFF)


def _imm8(w, imm):
    return w | ((imm >> 4) << 8) | (imm & 0xF)


def _t32_imm8x4(w, imm):
    return w | ((imm >> 2) & 0xFF)


def _none(w, imm):
    return w


PAIRS = [
    ('STR/LDR imm A1', 4, False, 'arm', 0xE5802000, 0xE5904000, _imm12, 'imm'),
    ('STRB/LDRB imm A1', 1, False, 'arm', 0xE5C02000, 0xE5D04000, _imm12, 'imm'),
    ('STRB/LDRSB imm A1', 1, True, 'arm', 0xE5C02000, 0xE1D040D0, None, 'imm'),
    ('STRH/LDRH imm A1', 2, False, 'arm', 0xE1C020B0, 0xE1D040B0, _imm8, 'imm'),
    ('STRH/LDRSH imm A1', 2, True, 'arm', 0xE1C020B0, 0xE1D040F0, _imm8, 'imm'),
    ('STRD/LDRD imm A1', 8, False, 'arm', 0xE1C020F0, 0xE1C040D0, _imm8, 'imm'),
    ('STRD/LDRD reg A1', 8, False, 'arm', 0xE18020F1, 0xE18040D1, _none, 'reg'),
    ('STR/LDR reg A1', 4, False, 'arm', 0xE7802001, 0xE7904001, _none, 'reg'),
    ('STRH/LDRH reg A1', 2, False, 'arm', 0xE18020B1, 0xE19040B1, _none, 'reg'),
    ('STRB/LDRB reg A1', 1, False, 'arm', 0xE7C02001, 0xE7D04001, _none, 'reg'),
    ('STR/LDR T1', 4, False, 't16', 0x6002, 0x6804, _none, 'none'),
    ('STRH/LDRH T1', 2, False, 't16', 0x8002, 0x8804, _none, 'none'),
    ('STRB/LDRB T1', 1, False, 't16', 0x7002, 0x7804, _none, 'none'),
    ('STR/LDR reg T1', 4, False, 't16', 0x5042, 0x5844, _none, 'reg'),
    ('STRD/LDRD imm T1', 8, False, 't32', 0xE9C02300, 0xE9D04500, _t32_imm8x4, 'imm4'),
    ('STR.W/LDR.W imm T3', 4, False, 't32', 0xF8C02000, 0xF8D04000, _imm12, 'imm'),
    ('STRH.W/LDRSH.W imm', 2, True, 't32', 0xF8A02000, 0xF9B04000, _imm12, 'imm'),
]


# word loads whose legacy (ARMv6 with SCTLR.U = 0 / A = 0, ARMv5) unaligned behaviour is the rotated aligned word:
# (name, word, addressing) with r0 base, r1 index, r4 destination
ROT_LOADS = [
    ('LDR imm offset', 0xE5904000, 'off'), ('LDR imm pre-index', 0xE5B04000, 'pre'), ('LDR imm post-index', 0xE4904000, 'post'),
    ('LDR reg offset', 0xE7904001, 'roff'), ('LDR reg post-index', 0xE6904001, 'rpost'),
    ('LDRT imm', 0xE4B04000, 'post'), ('LDRT reg', 0xE6B04001, 'rpost'),
]


def insn_rotated(spec, ls):
    """reference-free: legacy unaligned word load = the aligned word rotated right by 8 x address<1:0>, base write-back as
    for an aligned access, nothing stored"""
    from vf import scen, machine as M, observe
    rng = rng_for(ID, 'rot', spec['seed'], spec['shard'])
    res = ls.res
    for i in range(spec['n'] // 4):
        name, w, am = ROT_LOADS[rng.randrange(len(ROT_LOADS))]
        ctxkey = rng.choice([('v6-pmsa-sec', 'off'), ('v6-pmsa', 'off'), ('v5-pmsa', 'off')])
        ctx = ls.ctx(ctxkey)
        e = rng.randrange(2)
        addr = rng.choice([0x100, 0x1000, 0x3F8, 0x7FE0, 0x11F00, 0x8000]) + rng.randrange(8)
        imm = rng.choice([0, 1, 2, 3, 4, 5, 7, 8, 0x101])
        index = rng.choice([0, 1, 2, 3, 4, 6, 0x103])
        if am in ('off', 'pre'):
            base, word, wb = addr - imm, w | imm, (addr if am == 'pre' else None)
        elif am == 'post':
            base, word, wb = addr, w | imm, addr + imm
        elif am == 'roff':
            base, word, wb = addr - index, w, None
        else:
            base, word, wb = addr, w, addr + index
        regs = [None] * 15
        regs[0], regs[1] = base & 0xFFFFFFFF, index
        mode = rng.choice(['svc', 'sys', 'usr', 'irq'])
        desc = scen.prepare(ctx, rng, 'arm', word, mode=mode, itpos='out', regs=regs, e=e)
        cpu = ctx.cpu
        cpu.registers.sctlr.u = 0
        cpu.registers.sctlr.a = 0
        pre = observe.snapshot(cpu)
        k, sig = scen.step(cpu)
        post = observe.snapshot(cpu)
        res['evaluations'] += 1
        desc.update(load=name, address=hex(addr), e=e)
        if k != 'ok' or (post['cpsr'] & 0x1F) != (pre['cpsr'] & 0x1F):
            ls.report('C13|insn-rotated-load|did-not-complete|%s' % name, dict(desc, outcome=str((k, sig))), desc)
            continue
        ls.bump('insn_rotated_loads')
        dev, o = dev_off(addr & ~3)
        aligned = int.from_bytes(pre[dev][o:o + 4], 'big' if e else 'little')
        rot = 8 * (addr & 3)
        want = ((aligned >> rot) | (aligned << (32 - rot))) & 0xFFFFFFFF
        cell = 'rot|%s|o%d|E%d|%s' % (name, addr & 3, e, ctxkey[0])
        res['sets']['insn_cells'].add(cell)
        if addr & 3:
            res['nontrivial'].add(cell)
        why = None
        if post['R4usr'] != want:
            why = 'loaded %#x, the rotated aligned word is %#x' % (post['R4usr'], want)
        elif wb is not None and post['R0usr'] != wb & 0xFFFFFFFF:
            why = 'base written back as %#x, expected %#x' % (post['R0usr'], wb & 0xFFFFFFFF)
        elif any(pre[d] != post[d] for d in MEMKEYS):
            why = 'a load changed memory'
        if why:
            ls.report('C13|insn-rotated-load|%s|E%d|lane%d' % (name, e, addr & 3), dict(desc, why=why), desc)


def dev_off(a):
    from vf import scen
    for i, (b, e_) in enumerate(scen.MEMS):
        if b <= a < e_:
            return 'mem%d' % i, a - b
    raise KeyError(hex(a))


MEMKEYS = ('mem0', 'mem1', 'mem2', 'mem3')
LS_FAMILY = ('ls', 'ldm', 'stm', 'push', 'pop', 'ldm_eret', 'ldm_user', 'stm_user', 'srs', 'rfe', 'tbb', 'ldrex', 'strex')


def ls_rows(spec):
    """every instruction that accesses data memory, in lock-step with the reference, half of the cases big-endian, SCTLR.A/U
    varied, saved PSRs with the other endianness (exception-return loads read their words with the CURRENT CPSR.E)"""
    from vf.props import _lock as L
    from vf import scen

    def after(ctx, rng, desc):
        r = ctx.cpu.registers
        if ctx.cfg['arch_version'] >= 7:
            r.sctlr.u = 1
            r.sctlr.a = 1 if rng.random() < 0.2 else 0
        else:
            r.sctlr.u = rng.randrange(2)
            r.sctlr.a = 1 if rng.random() < 0.2 else 0
        for sp in ('spsr_svc', 'spsr_abt', 'spsr_und', 'spsr_irq', 'spsr_fiq', 'spsr_mon'):
            if rng.random() < 0.5:
                setattr(r, sp, getattr(r, sp) ^ (1 << 9))
        if ctx.prot == 'mmu':
            # short-descriptor tables of the harness, Fast Context Switch Extension in use: a fault raised by the alignment
            # POLICY (MemA, or MemU under SCTLR.A) reports the modified virtual address like every other abort does
            r.sctlr.a = 1 if rng.random() < 0.5 else 0
            for n in range(13):
                if rng.random() < 0.7:
                    r.set(n, rng.choice([0x100, 0x1000, 0x200100, 0x201100, 0x210100, 0x2000F0]) + rng.randrange(8))
            if int(desc.get('code', '0x10000'), 16) >= 0x02000000 and rng.random() < 0.7:
                r.fcseidr.value = rng.choice([1, 3, 0x40, 0x7F]) << 25
                desc['fcse_pid'] = r.fcseidr.value >> 25
        if ctx.prot == 'mmu-ld':
            # long-descriptor tables for the PL1&0 AND the Hyp regime: in Hyp mode the alignment policy is HSCTLR.A's, not
            # SCTLR.A's - both are drawn, independently; addresses inside the Normal-memory windows of the layout
            r.hsctlr.a = 1 if rng.random() < 0.3 else 0
            r.sctlr.a = 1 if rng.random() < 0.5 else 0
            for n in range(13):
                if rng.random() < 0.7:
                    r.set(n, rng.choice([0x100, 0x3000, 0x8000, 0x9000, 0x200100, 0x201000, 0x3FFFF0, 0x2000F0]) + rng.randrange(8))
            desc['hsctlr_a'] = r.hsctlr.a
            desc['sctlr_a'] = r.sctlr.a
    return L.run_rows(ID, spec, LS_FAMILY, ctxs=[('v7-pmsa-r', 'off'), ('v6-pmsa-sec', 'off'), ('v7-vmsa-virt', 'off'), ('v5-pmsa', 'off'),
                                                 ('v7-vmsa-virt', 'mmu-ld'), ('v7-vmsa-sec', 'mmu')],
                      regs_fn=lambda rng: [scen.reg_value(rng) for _ in range(15)],
                      prep_kw=lambda rng: dict(e=rng.randrange(2), **({'code': rng.choice([0xFFFFF100, 0xFFFFF200, 0xFFFFF802])} if rng.random() < 0.3 else {})),
                      after=after, solve_addr=0.15)


def bytewise(spec):
    """reference-free: with the protection unit ON, an unaligned MemU access of 2/4/8 bytes is equivalent to the individual
    byte transfers - same bytes, same abort (the first byte that is denied), same memory afterwards.  Regions are generated
    at random and the accesses are placed across their borders."""
    from vf import scen, machine as M, observe, lockstep
    from vf.props import c14
    from armulator.armv6.arm_exceptions import DataAbortException
    rng = rng_for(ID, 'bytewise', spec['seed'], spec['shard'])
    ls = lockstep.LockStep(ID, rng)
    res = ls.res
    for i in range(spec['n']):
        ctx = ls.ctx(rng.choice([('v7-pmsa-r', 'off'), ('v6-pmsa-sec', 'off'), ('v6-pmsa', 'off')]))
        e = rng.randrange(2)
        mode = rng.choice(['svc', 'usr', 'sys'])
        scen.prepare(ctx, rng, 'arm', 0xE1A00000, mode=mode, e=e)
        cpu = ctx.cpu
        regions = c14.gen_regions(rng)
        c14.program(cpu, regions, m=1, br=rng.randrange(2))
        cpu.registers.sctlr.u = 1
        cpu.registers.sctlr.a = 0
        size = rng.choice([2, 4, 4, 8])
        addrs = c14.interesting_addresses(rng, [x for x in regions if x[4]][:6])
        addr = (rng.choice(addrs) - rng.randrange(0, size)) & 0xFFFFFFFF
        if addr % size == 0:
            addr = (addr + 1) & 0xFFFFFFFF
        unpriv = rng.random() < 0.3
        is_store = rng.random() < 0.5
        value = rng.getrandbits(8 * size)
        base = observe.snapshot(cpu)
        M.activate(cpu)

        def run(whole):
            observe.restore(cpu, base)
            out = dict(abort=None, val=None)
            try:
                if whole:
                    if is_store:
                        (cpu.mem_u_unpriv_set if unpriv else cpu.mem_u_set)(addr, size, value)
                    else:
                        out['val'] = (cpu.mem_u_unpriv_get if unpriv else cpu.mem_u_get)(addr, size)
                else:
                    bs = value.to_bytes(size, 'big' if e else 'little')
                    got = bytearray()
                    for k in range(size):
                        a = (addr + k) & 0xFFFFFFFF
                        if is_store:
                            (cpu.mem_u_unpriv_set if unpriv else cpu.mem_u_set)(a, 1, bs[k])
                        else:
                            got.append((cpu.mem_u_unpriv_get if unpriv else cpu.mem_u_get)(a, 1))
                    if not is_store:
                        out['val'] = int.from_bytes(bytes(got), 'big' if e else 'little')
            except DataAbortException as ex:
                out['abort'] = (ex.abort_type.name, cpu.registers.dfar, cpu.registers.dfsr.value & 0x1FFF)
            except Exception as ex:        # noqa
                out['abort'] = ('HOST:' + type(ex).__name__,)
            snap = observe.snapshot(cpu)
            out['mem'] = tuple(snap[k_] for k_ in sorted(snap) if k_.startswith('mem') and not k_.startswith('memgeom'))
            return out
        a_, b_ = run(True), run(False)
        res['evaluations'] += 1
        ls.bump('bytewise_equivalences_checked')
        if a_['abort'] or b_['abort']:
            ls.bump('bytewise_cases_with_abort')
        cell = 'bytewise|s%d|%s|%s|%s' % (size, 'store' if is_store else 'load', 'abort' if b_['abort'] else 'ok', 'unpriv' if unpriv else mode)
        res['nontrivial'].add(cell)
        if a_ != b_:
            what = 'abort' if a_['abort'] != b_['abort'] else ('value' if a_['val'] != b_['val'] else 'memory')
            ls.report('C13|bytewise-equivalence|%s|%s|size%d' % ('store' if is_store else 'load', what, size),
                      dict(address=hex(addr), size=size, e=e, mode=mode, unprivileged_variant=unpriv, value=hex(value),
                           regions=[(hex(b), rs, hex(sd), ap, en) for b, rs, sd, ap, en in regions if en],
                           whole=dict(abort=a_['abort'], val=a_['val']), bytes=dict(abort=b_['abort'], val=b_['val'])), dict(address=addr))
    res['violations'] = list(ls.viol.values())
    return res


def insn_roundtrip(spec):
    """reference-free, at the instruction level: a store followed by a load of the same size at the same address returns
    the stored value (sign-/zero-extended), the bytes in memory are the value in CPSR.E order, and no other byte changes"""
    from vf import scen, machine as M, observe, lockstep
    rng = rng_for(ID, 'insn', spec['seed'], spec['shard'])
    ls = lockstep.LockStep(ID, rng)
    res = ls.res
    res['sets']['insn_cells'] = set()
    ctxkeys = [('v7-pmsa-r', 'off'), ('v7-vmsa-virt', 'off'), ('v7-vmsa-sec', 'off'), ('v6-pmsa-sec', 'off')]
    for i in range(spec['n']):
        name, size, signed, kind, sw, lw, setter, offk = PAIRS[rng.randrange(len(PAIRS))]
        ctxkey = ctxkeys[rng.randrange(len(ctxkeys))]
        ctx = ls.ctx(ctxkey)
        e = rng.randrange(2)
        off = rng.randrange(8)
        base_addr = rng.choice([0x100, 0x1000, 0x3F8, 0x7FE0, 0x11F00, 0x11000, 0x8000, 0x8000]) + off
        if offk == 'imm':
            imm = rng.choice([0, 0, 4, 8, 1, 3, 0xFC]) if setter is not None else 0
            if setter is _imm8:
                imm &= 0xFF
        elif offk == 'imm4':
            imm = rng.choice([0, 4, 8, 0x3FC])
        else:
            imm = 0
        index = rng.choice([0, 4, 8, 3, 0x100]) if offk == 'reg' else 0
        regs = [None] * 15
        target = base_addr
        regs[0] = (target - imm - index) & 0xFFFFFFFF
        regs[1] = index
        v_lo, v_hi = rng.getrandbits(32), rng.getrandbits(32)
        if rng.random() < 0.3:
            v_lo = rng.choice([0x80, 0x8000, 0x80000000, 0xFF, 0xFFFF, 0x7F, 0x11223344])
        regs[2], regs[3] = v_lo, v_hi
        swd = setter(sw, imm) if setter else sw
        lwd = setter(lw, imm) if setter else lw
        mode = rng.choice(['svc', 'sys', 'usr', 'irq'])
        desc = scen.prepare(ctx, rng, kind, swd, mode=mode, itpos='out', regs=regs, e=e)
        cpu = ctx.cpu
        r = cpu.registers
        r.sctlr.u = 1             # RAO on ARMv7; on ARMv6 the legacy (U = 0) rotation is covered at the function level
        r.sctlr.a = 0
        nxt = scen.CODE + (2 if kind == 't16' else 4)
        M.put_code(cpu, nxt, lwd, kind)
        pre = observe.snapshot(cpu)
        cell = '%s|o%d|E%d|%s' % (name, off, e, ctxkey[0])
        desc.update(pair=name, store=hex(swd), load=hex(lwd), address=hex(target), e=e)
        k1, sig1 = scen.step(cpu)
        mid = observe.snapshot(cpu)
        if k1 != 'ok' or (mid['cpsr'] & 0x1F) != (pre['cpsr'] & 0x1F) or mid['PC'] != nxt:
            ls.bump('insn_roundtrip_store_did_not_complete')      # alignment fault (LDRD/STRD unaligned), UNPREDICTABLE ...
            continue
        k2, sig2 = scen.step(cpu)
        post = observe.snapshot(cpu)
        res['evaluations'] += 1
        if k2 != 'ok' or (post['cpsr'] & 0x1F) != (pre['cpsr'] & 0x1F):
            ls.report('C13|insn-roundtrip|load-failed-after-store|%s' % name, dict(desc, outcome=str((k2, sig2))), desc)
            continue
        ls.bump('insn_roundtrips')
        res['sets']['insn_cells'].add(cell)
        if off % size or e:
            res['nontrivial'].add(cell)
        stored = (v_lo | (v_hi << 32)) & ((1 << (8 * size)) - 1)
        exp_lo = stored & 0xFFFFFFFF
        if signed and (stored >> (8 * size - 1)) & 1:
            exp_lo = (stored | (0xFFFFFFFF << (8 * size))) & 0xFFFFFFFF
        rn = lambda n: post['R%dusr' % n]                          # noqa: E731  (r0-r7 are not banked)
        got_lo, got_hi = rn(4), rn(5)
        why = None
        if got_lo != exp_lo or (size == 8 and got_hi != v_hi):
            why = 'loaded %#x%s, stored %#x%s' % (got_lo, ':%#x' % got_hi if size == 8 else '', exp_lo, ':%#x' % v_hi if size == 8 else '')
        else:
            # bytes in memory: the value in CPSR.E order (a doubleword is two words, lowest register at the lowest address)
            want = bytearray()
            if size == 8:
                for wv in (v_lo, v_hi):
                    want += wv.to_bytes(4, 'big' if e else 'little')
            else:
                want += stored.to_bytes(size, 'big' if e else 'little')
            dev, o = dev_off(target)
            if post[dev][o:o + size] != bytes(want):
                why = 'memory holds %s, expected %s' % (post[dev][o:o + size].hex(), bytes(want).hex())
            else:
                for dv in MEMKEYS:
                    a, b = pre[dv], post[dv]
                    if dv == dev:
                        a = a[:o] + a[o + size:]
                        b = b[:o] + b[o + size:]
                    if a != b:
                        why = 'a byte outside the %d addressed bytes changed in %s' % (size, dv)
        if why:
            ls.report('C13|insn-roundtrip|%s|%s|%s' % (name, 'E1' if e else 'E0', 'aligned' if off % size == 0 else 'unaligned'),
                      dict(desc, why=why), desc)
    insn_rotated(spec, ls)
    res['violations'] = list(ls.viol.values())
    return res


def run_shard(spec):
    if spec.get('kind') == 'insn':
        return insn_roundtrip(spec)
    if spec.get('kind') == 'bytewise':
        return bytewise(spec)
    if spec.get('kind') == 'rows':
        return ls_rows(spec)
    from vf import scen, machine as M, observe, lockstep
    from vf.ref.model import RefCPU, RefAbort, RefUnpredictable, RefNotModelled
    from vf.ref import mem as RM      # noqa
    from armulator.armv6.arm_exceptions import DataAbortException
    rng = rng_for(ID, spec['seed'], spec['shard'])
    ls = lockstep.LockStep(ID, rng)
    res = ls.res
    res['sets']['cells'] = set()
    cells = [(size, off, e, a, u, arch, priv) for size in (1, 2, 4, 8) for off in range(8) for e in (0, 1) for a in (0, 1)
             for u in (0, 1) for arch in (5, 6, 7) for priv in (1, 0)]
    for ci, (size, off, e, a, u, arch, priv) in enumerate(cells):
        if ci % spec['of'] != spec['shard']:
            continue
        ctx = ls.ctx((ARCH_CFG[arch], 'off'))
        for rep in range(spec['reps']):
            base = rng.choice([0x100, 0x1000, 0x7FF0, 0x7FF8, 0x11FF8, 0xFFFFFFF0, 0xFFFFFFF8, 0x11000])
            addr = (base + off) & 0xFFFFFFFF
            mode = 'usr' if (not priv and rng.random() < 0.5) else rng.choice(['svc', 'sys', 'irq'])
            scen.prepare(ctx, rng, 'arm', 0xE1A00000, mode=mode, e=e)
            cpu = ctx.cpu
            cpu.registers.sctlr.a = a
            cpu.registers.sctlr.u = u
            # random surroundings
            M.poke(cpu, (addr - 8) & 0xFFFFFFFF, bytes(rng.getrandbits(8) for _ in range(24)))
            value = rng.getrandbits(8 * size)
            for fn in (('u', 'get'), ('u', 'set'), ('a', 'get'), ('a', 'set')):
                M.activate(cpu)
                pre = observe.snapshot(cpu)
                ref = RefCPU(pre, ctx.cfg)
                is_set = fn[1] == 'set'
                if fn[0] == 'u':
                    name = ('mem_u_%s' if (priv or mode == 'usr') else 'mem_u_unpriv_%s') % fn[1]
                    rfn = ref.MemU if (priv or mode == 'usr') else ref.MemU_unpriv
                else:
                    name = 'mem_a_%s' % fn[1]
                    rfn = ref.MemA
                exp_exc = exp_val = None
                try:
                    exp_val = rfn(addr, size, value) if is_set else rfn(addr, size)
                except RefAbort as ab:
                    ref.abort_bookkeeping(ab)
                    exp_exc = ab.kind
                except (RefUnpredictable, RefNotModelled):
                    ls.bump('cells_unpredictable')
                    continue
                got_exc = got_val = None
                try:
                    if is_set:
                        getattr(cpu, name)(addr, size, value)
                    else:
                        got_val = getattr(cpu, name)(addr, size)
                except DataAbortException as ex:
                    got_exc = 'alignment' if ex.is_alignment_fault() else str(ex.abort_type)
                except Exception as ex:
                    got_exc = 'HOST:' + type(ex).__name__
                post = observe.snapshot(cpu)
                res['evaluations'] += 1
                cell = 's%d|o%d|E%d|A%d|U%d|v%d|%s' % (size, off, e, a, u, arch, 'priv' if priv else 'unpriv')
                res['sets']['cells'].add(cell)
                if off % size or e or exp_exc:
                    res['nontrivial'].add(cell + '|' + name)
                ls.bump('faults_expected' if exp_exc else 'accesses_expected_ok')
                why = None
                if exp_exc != got_exc:
                    why = 'fault: expected %s, got %s' % (exp_exc, got_exc)
                elif not is_set and exp_exc is None and got_val != exp_val:
                    why = 'value read %r, expected %#x' % (got_val, exp_val)
                else:
                    from vf.ref import step as RS
                    diffs = RS.compare(ref, post)
                    if diffs:
                        why = 'state after the access: %s' % [(l, hex(x) if isinstance(x, int) else x, hex(g) if isinstance(g, int) else g) for l, x, g in diffs[:3]]
                if why:
                    pol = 'aligned' if off % size == 0 else ('v7' if arch >= 7 else ('A' if a else ('U' if u else 'legacy')))
                    ls.report('C13|%s|%s|size%d|%s' % (name, pol, size, 'E1' if e else 'E0'),
                              '%s(%#x, %d%s) arch %d A=%d U=%d E=%d mode %s: %s' % (name, addr, size, ', %#x' % value if is_set else '',
                                                                                  arch, a, u, e, mode, why),
                              dict(cell=cell, addr=addr, value=value, name=name, mode=mode))
            # ---- reference-free round trip
            M.activate(cpu)
            mapped = all(any(b <= ((addr + i) & 0xFFFFFFFF) < e_ for b, e_ in scen.MEMS) for i in range(size))
            if not mapped:
                ls.bump('roundtrip_skipped_unmapped_bytes')     # bytes outside every device read as zero by definition
                continue
            try:
                cpu.mem_u_set(addr, size, value)
                back = cpu.mem_u_get(addr, size)
                ls.bump('roundtrips')
                if back != value and not (arch < 7 and not a and not u and off % size):
                    ls.report('C13|roundtrip|size%d|%s' % (size, 'E1' if e else 'E0'),
                              'stored %#x, loaded %#x at %#x' % (value, back, addr), dict(addr=addr, value=value))
            except DataAbortException:
                ls.bump('roundtrip_faulted')
    # ---- fetch monitor
    for i in range(400 if spec['reps'] < 100 else 20000):
        arch = rng.choice([5, 6, 7])
        ctx = ls.ctx((ARCH_CFG[arch], 'off'))
        kind = rng.choice(['arm', 't16', 't32'])
        w = rng.getrandbits(32) if kind != 't16' else rng.getrandbits(16)
        if kind == 't32':
            w = (rng.choice([0b11101, 0b11110, 0b11111]) << 27) | (w & 0x07FFFFFF)
        if kind == 't16' and (w >> 11) in (0b11101, 0b11110, 0b11111):
            w &= 0x7FFF
        e = rng.randrange(2)
        scen.prepare(ctx, rng, kind, w, mode='svc', e=e)
        got = ctx.cpu.fetch_instruction()
        res['evaluations'] += 1
        ls.bump('fetches_E%d' % e)
        if got != w:
            ls.report('C13|fetch|%s|E%d' % (kind, e), 'fetched %#x, the little-endian word at the PC is %#x' % (got, w),
                      dict(kind=kind, word=w, e=e))
    res['violations'] = list(ls.viol.values())
    return res


def replay(data):
    from vf.props import _lock as L
    if (data.get('replay') or {}).get('snapshot'):
        return L.replay_rows(ID, data)          # clusters of the lock-step rows carry their complete pre-state
    return dict(evaluations=0, violations=[], not_replayable='this cluster is described in full by the file; it has no executable replay')


def finish(agg, tier, seed):
    inc = []
    if len(agg['sets'].get('cells', ())) != 1536:
        inc.append('only %d of 1536 cells covered' % len(agg['sets'].get('cells', ())))
    if agg['counters'].get('fetches_E1', 0) < 100:
        inc.append('too few big-endian fetches')
    if agg['counters'].get('bytewise_cases_with_abort', 0) < 300:
        inc.append('too few byte-wise equivalence cases with an abort (%d)' % agg['counters'].get('bytewise_cases_with_abort', 0))
    if agg['counters'].get('insn_rotated_loads', 0) < 1000:
        inc.append('too few legacy rotated loads at the instruction level (%d)' % agg['counters'].get('insn_rotated_loads', 0))
    if agg['counters'].get('insn_roundtrips', 0) < 3000:
        inc.append('too few instruction-level store/load round trips (%d)' % agg['counters'].get('insn_roundtrips', 0))
    return dict(inconclusive=inc, coverage=dict(
        exhaustive_subspaces=['all 1536 cells of the (size, offset, E, A, U, arch, privilege) matrix visited'],
        cells=len(agg['sets'].get('cells', ())),
        explanation='every cell of the configuration matrix is exercised; data values and addresses are sampled'))
