"""C09 — multiply, divide, saturating, packed-SIMD, extend, bit-field, reversal: lock-step against the reference."""
from vf.props import _lock as L

ID = 'C09'
LEVEL = 'exploration'
SHARD_TIMEOUT = L.SHARD_TIMEOUT
FAMILY = ('mul', 'mla', 'mls', 'umull', 'umlal', 'smull', 'smlal', 'umaal', 'smlaxy', 'smulxy', 'smlaw', 'smulw', 'smlalxy',
          'smlad', 'smuad', 'smlsd', 'smusd', 'smlald', 'smlsld', 'smmla', 'smmul', 'smmls', 'sdiv', 'udiv', 'qadd', 'qsub',
          'qdadd', 'qdsub', 'ssat', 'usat', 'ssat16', 'usat16', 'par', 'sel', 'usad8', 'usada8', 'pkh', 'xt', 'xta', 'rev',
          'rev16', 'revsh', 'rbit', 'clz', 'sbfx', 'ubfx', 'bfc', 'bfi')
RULE = ('case = (word generated from one reference row of the ~110 multiply/divide/saturating/parallel/extend/bit-field/'
        'reversal encodings A1/T1/T2 with all parameter fields random or at corners, random valid state with operands '
        'from a lane-boundary pool: 0x7F/0x80/0xFF bytes, 0x7FFF/0x8000 halfwords, products hitting 2^32 / 2^64, '
        'INT_MIN/-1, divisor 0, prior Q and GE random); full-state comparison; non-trivial = destination or Q/GE changed; '
        'distinct = (row, IT position, configuration)')
ASSUMPTIONS = ['vf/ref/sem_dp.py transcribes the A8 pseudocode of these instructions',
               'SDIV/UDIV by zero with the ARMv7-R DZ trap enabled is not judged']

POOL = [0, 1, 2, 0x7F, 0x80, 0xFF, 0x100, 0x7FFF, 0x8000, 0xFFFF, 0x10000, 0x7FFFFFFF, 0x80000000, 0x80000001, 0xFFFFFFFF,
        0xFFFFFFFE, 0x7F80FF00, 0x80008000, 0x7FFF8000, 0x80007FFF, 0x7F7F7F7F, 0x80808080, 0xFF00FF00, 0x00FF00FF,
        0x00010000, 0xFFFF0000, 0x0000FFFF, 0x40000000, 0xC0000000, 0x00008000, 0x7FFF7FFF, 0x80000000, 0x10000, 0x10001,
        0xFFFF8000, 0x8000FFFF]


EXTREME = [0x80008000, 0x7FFF7FFF, 0x80000000, 0x7FFFFFFF, 0xFFFFFFFF, 0x80808080, 0x7F7F7F7F, 0x8000, 0x00010001]


def regs(rng):
    # a third of the states draw EVERY register from a tiny pool of extreme lane patterns, so that both operands of a
    # dual multiply / parallel operation sit at the same boundary (e.g. 0x8000 x 0x8000 twice = 2^31) together with an
    # accumulator of either sign
    if rng.random() < 0.34:
        pool = rng.sample(EXTREME, 3)
        return [rng.choice(pool) for _ in range(15)]
    out = []
    for _ in range(15):
        r = rng.random()
        if r < 0.6:
            out.append(rng.choice(POOL))
        elif r < 0.7:
            out.append((rng.choice(POOL) + rng.choice((-1, 1))) & 0xFFFFFFFF)
        else:
            out.append(rng.getrandbits(32))
    return out


def plan(tier, seed):
    return L.plan_rows(ID, FAMILY, tier, seed, 260, 14000)


def run_shard(spec):
    return L.run_rows(ID, spec, FAMILY, regs_fn=regs)


def replay(data):
    return L.replay_rows(ID, data)


def finish(agg, tier, seed):
    return dict(inconclusive=L.finish_rows(agg), coverage=dict(
        rows_exercised=len(agg['sets'].get('rows', ())), explanation='sampled per encoding'))
