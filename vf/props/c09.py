"""C09 — multiply, divide, saturating, packed-SIMD, extend, bit-field, reversal: lock-step against the reference."""
from vf.props import _lock as L

ID = 'C09'
LEVEL = 'exploration'
SHARD_TIMEOUT = L.SHARD_TIMEOUT
FAMILY = ('mul', 'mla', 'mls', 'umull', 'umlal', 'smull', 'smlal', 'umaal', 'smlaxy', 'smulxy', 'smlaw', 'smulw', 'smlalxy',
          'smlad', 'smuad', 'smlsd', 'smusd', 'smlald', 'smlsld', 'smmla', 'smmul', 'smmls', 'sdiv', 'udiv', 'qadd', 'qsub',
          'qdadd', 'qdsub', 'ssat', 'usat', 'ssat16', 'usat16', 'par', 'sel', 'usad8', 'usada8', 'pkh', 'xt', 'xta', 'rev',
          'rev16', 'revsh', 'rbit', 'clz', 'sbfx', 'ubfx', 'bfc', 'bfi')
RULE = ('case = (word generated from one reference row of the ~110 multiply/divide/saturating/parallel/extend/bit-field/'
        'reversal encodings A1/T1/T2 with all parameter fields random or at corners, random valid state with operands '
        'from a lane-boundary pool: 0x7F/0x80/0xFF bytes, 0x7FFF/0x8000 halfwords, products hitting 2^32 / 2^64, '
        'INT_MIN/-1, divisor 0, prior Q and GE random; for 30% of the multiply-accumulate cases the accumulator is solved '
        'so that the result is 0 / 2^31 / 2^32 / 2^63 / all ones; for 15% of the 32x32 multiplies the two factors are solved so that the low word of the full product is 0, 1, 0x7FFFFFFF..0x80000001 or within 2048 of 2^32 while the product is large); full-state comparison; non-trivial = destination or Q/GE changed; '
        'distinct = (row, IT position, configuration)')
ASSUMPTIONS = ['vf/ref/sem_dp.py transcribes the A8 pseudocode of these instructions',
               'SDIV/UDIV by zero with the ARMv7-R trap enabled (SCTLR.DZ) is judged as the Undefined Instruction exception']

POOL = [0, 1, 2, 0x7F, 0x80, 0xFF, 0x100, 0x7FFF, 0x8000, 0xFFFF, 0x10000, 0x7FFFFFFF, 0x80000000, 0x80000001, 0xFFFFFFFF,
        0xFFFFFFFE, 0x7F80FF00, 0x80008000, 0x7FFF8000, 0x80007FFF, 0x7F7F7F7F, 0x80808080, 0xFF00FF00, 0x00FF00FF,
        0x00010000, 0xFFFF0000, 0x0000FFFF, 0x40000000, 0xC0000000, 0x00008000, 0x7FFF7FFF, 0x80000000, 0x10000, 0x10001,
        0xFFFF8000, 0x8000FFFF]


EXTREME = [0x80008000, 0x7FFF7FFF, 0x80000000, 0x7FFFFFFF, 0xFFFFFFFF, 0x80808080, 0x7F7F7F7F, 0x8000, 0x00010001]


def regs(rng):
    # a third of the states draw EVERY register from a tiny pool of extreme lane patterns, so that both operands of a
    # dual multiply / parallel operation sit at the same boundary (e.g. 0x8000 x 0x8000 twice = 2^31) together with an
    # accumulator of either sign
    if rng.random() < 0.34:
        pool = rng.sample(EXTREME, 3)
        return [rng.choice(pool) for _ in range(15)]
    out = []
    for _ in range(15):
        r = rng.random()
        if r < 0.6:
            out.append(rng.choice(POOL))
        elif r < 0.7:
            out.append((rng.choice(POOL) + rng.choice((-1, 1))) & 0xFFFFFFFF)
        else:
            out.append(rng.getrandbits(32))
    return out


def after(ctx, rng, desc):
    """for a share of the multiply-accumulate cases the accumulator is chosen so that the RESULT lands on a boundary
    (0, 2^31, 2^32, 2^63, all ones: a sum that wraps to exactly zero, crosses the sign bit, carries out of the low word):
    one reference step gives result - accumulator, the accumulator is then replaced by target - that"""
    from vf.ref import step as RS
    if desc['kind'] in RS.tables():
        row0 = RS.tables()[desc['kind']].match(int(desc['word'], 16))
        if row0 is not None and row0.sem in ('sdiv', 'udiv') and rng.random() < 0.35:
            # divisor zero (result 0, or the ARMv7-R trap) and INT_MIN / -1
            w0 = int(desc['word'], 16)
            m_ = w0 & 0xF if desc['kind'] != 'arm' else (w0 >> 8) & 0xF
            n_ = (w0 >> 16) & 0xF if desc['kind'] != 'arm' else w0 & 0xF
            if m_ != 15 and n_ != 15:
                if rng.random() < 0.7:
                    ctx.cpu.registers.set(m_, 0)
                else:
                    ctx.cpu.registers.set(n_, 0x80000000)
                    ctx.cpu.registers.set(m_, 0xFFFFFFFF)
            return
    k_ = rng.random()
    if k_ > 0.45:
        return
    from vf import observe
    cpu = ctx.cpu
    verdict, ref, info = RS.step(observe.snapshot(cpu), ctx.cfg)
    ops = info.get('ops') or {}
    if verdict != 'ok' or not info.get('cond_passed') or 'umaal' in (info.get('row') or ''):
        return
    r = cpu.registers
    if k_ > 0.3:
        # the two factors of a 32 x 32 multiply are solved so that the LOW WORD of the full product sits on a boundary while
        # the product itself is large (Rn odd and random, Rm = target / Rn modulo 2^32): just below 2^32 (a carry into the
        # high word that a rounding or inexact split gets wrong), 0, the rounding constant of SMMULR/SMMLAR/SMMLSR
        try:
            n_, m_ = int(ops['n']), int(ops['m'])
        except (KeyError, ValueError, TypeError):
            return
        if n_ == m_ or 15 in (n_, m_) or not any(t in (info.get('row') or '') for t in ('mul', 'mla', 'mls', 'mlal')):
            return
        rn = rng.getrandbits(32) | 1 | (rng.choice([0, 1, 1]) << 31)
        target = rng.choice([0, 1, 0x7FFFFFFF, 0x80000000, 0x80000001, 0xFFFFFFFF, 0xFFFFFFFF, (1 << 32) - rng.randrange(1, 2048),
                             (1 << 32) - rng.randrange(1, 2048), rng.randrange(0, 2048)])
        rm = (target * pow(rn, -1, 1 << 32)) & 0xFFFFFFFF
        if rng.random() < 0.5:
            rn, rm = rm, rn
        r.set(n_, rn)
        r.set(m_, rm)
        desc['regs'][n_] = '%#x' % rn
        desc['regs'][m_] = '%#x' % rm
        desc['product_low_word_solved_for'] = '%#x' % target
        return
    try:
        if 'd_lo' in ops and 'd_hi' in ops:
            lo, hi = int(ops['d_lo']), int(ops['d_hi'])
            if {lo, hi} & {int(ops.get('n', -1)), int(ops.get('m', -2))} or lo == hi or 15 in (lo, hi):
                return
            acc = (r.get(hi) << 32) | r.get(lo)
            res = (ref.R(hi) << 32) | ref.R(lo)
            target = rng.choice([0, 0, 1 << 63, (1 << 63) - 1, (1 << 64) - 1, 1 << 32, (1 << 32) - 1, 1])
            new = (target - (res - acc)) & ((1 << 64) - 1)
            r.set(hi, new >> 32)
            r.set(lo, new & 0xFFFFFFFF)
            desc['regs'][hi] = '%#x' % (new >> 32)
            desc['regs'][lo] = '%#x' % (new & 0xFFFFFFFF)
        elif 'a' in ops and 'd' in ops:
            a, d = int(ops['a']), int(ops['d'])
            if a in (int(ops.get('n', -1)), int(ops.get('m', -2))) or a == 15 or d == 15:
                return
            acc = r.get(a)
            res = ref.R(d)
            target = rng.choice([0, 0, 1 << 31, (1 << 31) - 1, 0xFFFFFFFF, 1])
            new = (target - (res - acc)) & 0xFFFFFFFF
            r.set(a, new)
            desc['regs'][a] = '%#x' % new
        else:
            return
    except (KeyError, ValueError, TypeError, IndexError):
        return
    desc['accumulator_solved_for'] = '%#x' % target


def plan(tier, seed):
    return L.plan_rows(ID, FAMILY, tier, seed, 260, 14000)


def run_shard(spec):
    return L.run_rows(ID, spec, FAMILY, regs_fn=regs, after=after)


def replay(data):
    return L.replay_rows(ID, data)


def finish(agg, tier, seed):
    return dict(inconclusive=L.finish_rows(agg), coverage=dict(
        rows_exercised=len(agg['sets'].get('rows', ())), explanation='sampled per encoding'))
