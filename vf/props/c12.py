"""C12 — system instructions.
 (a) lock-step of MRS/MSR/CPS/SETEND, the exception-return instructions, hints, SVC/SMC against the
     reference CPSRWriteByInstr / SPSRWriteByInstr across modes, security states, NMFI, SCR.AW/FW;
 (b) reference-free negative invariants on every one of those steps (unprivileged code never changes A/I/F/M,
     execution-state bits change only on exception return, the mode stays legal for the configuration);
 (c) reference-free entry/return round trip: exception of each kind, then its standard return sequence,
     resumes the interrupted state exactly;
 (d) coprocessor gating: coproc_accepted() for cp0-cp13 over NSACR x CPACR x HCPTR x mode x security state
     against an independent decision function."""
import random
from vf.props import _lock as L
from vf.common import rng_for

ID = 'C12'
LEVEL = 'exploration'
SHARD_TIMEOUT = L.SHARD_TIMEOUT
FAMILY = ('mrs', 'msr_app', 'msr_sys', 'cps', 'setend', 'subs_pc_lr', 'subs_pc_lr_thumb', 'eret', 'wfe', 'wfi', 'nop',
          'yield', 'sev', 'smc', 'svc', 'clrex', 'rfe', 'ldm_eret', 'cp')
RULE = ('lock-step: case = (word from a row of MRS/MSR(imm,reg; application, system)/CPS/SETEND/SUBS PC,LR/ERET/RFE/LDM^/'
        'hints/SVC/SMC, all 16 byte masks via the mask field), value registers holding PSR-like words (legal and illegal '
        'modes, T/J/IT bits set), every mode, secure/non-secure, SCTLR.NMFI, SCR.AW/FW random, three extension '
        'configurations; round trip: (exception kind in {SVC, UDF, IRQ, FIQ, data abort}, interrupted state S in ARM or '
        'Thumb incl. inside an IT block) then the matching return (MOVS PC,LR / SUBS PC,LR,#4|#8 / SRS+RFE / LDM^ in ARM '
        'or Thumb handlers) must give back CPSR, PC and every register of S; gating: 14 coprocessors x CPACR field x '
        'NSACR bit x HCPTR bit x mode x security state; non-trivial = PSR/SPSR changed or exception taken; distinct = '
        '(row, mode, configuration) / (kind, handler set, IT) / gating cell')
ASSUMPTIONS = ['vf/ref transcribes CPSRWriteByInstr/SPSRWriteByInstr/exception entry and return',
               'NotImplementedError from the YIELD/SEV/coprocessor mock hooks is the documented outcome']
CTXS = [('v7-vmsa-sec', 'off'), ('v6-pmsa-sec', 'off'), ('v7-vmsa-virt', 'off'), ('v6-pmsa', 'off'), ('v7-pmsa-r', 'off')]
PSR_POOL = [0x10, 0x11, 0x12, 0x13, 0x16, 0x17, 0x1A, 0x1B, 0x1F, 0x00, 0x14, 0x15, 0x18, 0x1E]


def psr_value(rng):
    v = rng.getrandbits(32) & ~0x1F
    v |= rng.choice(PSR_POOL) if rng.random() < 0.9 else rng.randrange(32)
    if rng.random() < 0.6:
        v &= ~(1 << 24)          # J clear (no Jazelle)
    if rng.random() < 0.4:
        v &= ~0x0600FC20         # ARM state, IT clear
    return v


def regs(rng):
    from vf import scen
    return [psr_value(rng) if rng.random() < 0.7 else scen.reg_value(rng) for _ in range(15)]


def after(ctx, rng, desc):
    r = ctx.cpu.registers
    r.sctlr.nmfi = 1 if rng.random() < 0.3 else 0
    if ctx.cfg['have_security_ext']:
        r.scr.aw = rng.randrange(2)
        r.scr.fw = rng.randrange(2)
        r.scr.scd = 1 if rng.random() < 0.2 else 0
    if ctx.cfg['arch_version'] >= 7:
        r.sctlr.u = 1
    r.elr_hyp = rng.choice([0x10040, 0x10041, 0x7000])
    # coprocessor access control: mostly denying, so that the UNDEFINED outcome is what gets compared
    r.cpacr.value = sum(rng.choice([0, 0, 1, 3]) << (2 * c) for c in range(14))
    r.nsacr.value = (r.nsacr.value & ~0x3FFF) | rng.getrandbits(14)
    if rng.random() < 0.3:
        r.nsacr.value |= 1 << 19           # NSACR.RFR: FIQ mode reserved for Secure state
    if ctx.cfg['have_virt_ext']:
        r.hcptr.value = rng.getrandbits(14) if rng.random() < 0.5 else 0
        # Hyp trap controls of the hint / monitor-call instructions
        r.hcr.twe = rng.randrange(2)
        r.hcr.twi = rng.randrange(2)
        r.hcr.tsc = 1 if rng.random() < 0.3 else 0
    r.event_register = rng.random() < 0.5
    desc['nmfi'] = r.sctlr.nmfi
    desc['event_register'] = r.event_register


def plan(tier, seed):
    q = tier == 'quick'
    specs = L.plan_rows(ID, FAMILY, tier, seed, 700, 30000, 12, 48)
    for i in range(2 if q else 16):
        specs.append(dict(kind='roundtrip', seed=seed, shard=i, n=1500 if q else 20000))
    specs.append(dict(kind='gating', seed=seed, shard=0, reps=2 if q else 60))
    return specs


def run_shard(spec):
    if spec['kind'] == 'roundtrip':
        return roundtrip(spec)
    if spec['kind'] == 'gating':
        return gating(spec)
    return L.run_rows(ID, spec, FAMILY, ctxs=CTXS, regs_fn=regs, after=after)


# ------------------------------------------------------------------------------------------ (c) round trip
def roundtrip(spec):
    from vf import lockstep, scen, machine as M, observe
    from armulator.armv6.arm_exceptions import DataAbortException
    from armulator.armv6.enums import DAbort
    rng = rng_for(ID, 'rt', spec['seed'], spec['shard'])
    ls = lockstep.LockStep(ID, rng)
    for i in range(spec['n']):
        ctx = ls.ctx(rng.choice([('v7-pmsa-r', 'off'), ('v6-pmsa-sec', 'off'), ('v7-vmsa-sec', 'off')]))
        kind = rng.choice(['svc', 'udf', 'irq', 'fiq', 'dabort'])
        thumb = rng.random() < 0.5
        te = rng.randrange(2)
        ret = rng.choice(['subs', 'subs', 'srs_rfe', 'ldm'])
        if te and ret == 'ldm':
            ret = 'subs'
        mode = rng.choice(['usr', 'sys', 'svc', 'irq', 'abt', 'und', 'fiq'])
        # the interrupted instruction
        if kind == 'svc':
            word, ikind = (0xDF00 | rng.getrandbits(8), 't16') if thumb else (0xEF000000 | rng.getrandbits(24), 'arm')
        elif kind == 'udf':
            word, ikind = (0xDE00 | rng.getrandbits(8), 't16') if thumb else (0xE7F000F0, 'arm')
        else:
            word, ikind = (0xBF00, 't16') if thumb else (0xE1A00000, 'arm')
        itpos = rng.choice(['out', 'out', 'mid', 'last']) if thumb else 'out'
        if kind in ('svc', 'udf'):
            itpos = 'out'          # inside an IT block the trapping instruction might be skipped by its condition
        desc = scen.prepare(ctx, rng, ikind, word, mode=mode, itpos=itpos, aif=rng.getrandbits(3) & 0b011)
        cpu = ctx.cpu
        r = cpu.registers
        r.sctlr.v = 0
        r.vbar.value = 0
        r.sctlr.te = te
        r.sctlr.ve = 0
        if ctx.cfg['have_security_ext']:
            r.scr.value = r.scr.value & 1          # no routing to Monitor
        if ctx.cfg['arch_version'] >= 7:
            r.sctlr.u = 1
        S = observe.snapshot(cpu)
        length = 2 if thumb else 4
        # ---- entry
        M.activate(cpu)
        if kind in ('svc', 'udf'):
            k, _ = scen.step(cpu)
            resume = (S['PC'] + length) & 0xFFFFFFFF
            sub = 0                                    # LR already points to the next instruction
            exp_it_advanced = (kind == 'svc')
        elif kind == 'irq':
            r.take_physical_irq_exception()
            resume, sub, exp_it_advanced = S['PC'], 4, False
        elif kind == 'fiq':
            r.take_physical_fiq_exception()
            resume, sub, exp_it_advanced = S['PC'], 4, False
        else:
            r.dfsr.value = 0
            r.take_data_abort_exception(DataAbortException(DAbort.PERMISSION, False))
            resume, sub, exp_it_advanced = S['PC'], 8, False
        hmode = r.cpsr.m
        vec = r.pc_store_value()
        # ---- the standard return sequence of that exception, in the handler's instruction set
        hthumb = bool(r.cpsr.t)
        seq = []
        if ret == 'subs' or sub and ret == 'ldm' and False:
            if hthumb:
                seq = [('t32', 0xF3DE8F00 | sub)]
            else:
                seq = [('arm', 0xE1B0F00E)] if sub == 0 else [('arm', 0xE25EF000 | sub)]
        elif ret == 'srs_rfe':
            # SUB LR,LR,#sub ; SRSDB SP!,#mode ; RFEIA SP!
            if hthumb:
                seq = ([('t32', 0xF1AE0E00 | sub)] if sub else []) + [('t32', 0xE82DC000 | hmode), ('t32', 0xE9BDC000)]
            else:
                seq = ([('arm', 0xE24EE000 | sub)] if sub else []) + [('arm', 0xF96D0500 | hmode), ('arm', 0xF8BD0A00)]
        else:
            # SUB LR,LR,#sub ; STMDB SP!,{r0,lr} ; LDMIA SP!,{r0,pc}^
            seq = ([('arm', 0xE24EE000 | sub)] if sub else []) + [('arm', 0xE92D4001), ('arm', 0xE8FD8001)]
        r.set(13, 0x6000)
        addr = vec
        for ik, w in seq:
            M.put_code(cpu, addr, w, ik)
            addr += 2 if ik == 't16' else 4
        ok = True
        for ik, w in seq:
            k, _ = scen.step(cpu)
            if k != 'ok':
                ok = False
                break
        ls.res['evaluations'] += 1
        ls.bump('roundtrips_' + kind)
        if not ok or r.cpsr.m != (S['cpsr'] & 0x1F):
            ls.report('C12|roundtrip|%s|%s|did-not-return' % (kind, ret), dict(desc, handler_thumb=hthumb, ret=ret,
                      mode_now=bin(r.cpsr.m)), desc)
            continue
        E = observe.snapshot(cpu)
        exp_cpsr = S['cpsr']
        if exp_it_advanced and itpos != 'out':
            it = (((exp_cpsr >> 10) & 0x3F) << 2) | ((exp_cpsr >> 25) & 3)
            it2 = 0 if (it & 7) == 0 else ((it & 0xE0) | ((it << 1) & 0x1F))
            exp_cpsr = (exp_cpsr & ~0x0600FC00) | (((it2 >> 2) & 0x3F) << 10) | ((it2 & 3) << 25)
        bad = []
        if E['cpsr'] != exp_cpsr:
            bad.append('cpsr %#x != %#x' % (E['cpsr'], exp_cpsr))
        if E['PC'] != resume:
            bad.append('PC %#x != %#x' % (E['PC'], resume))
        for n in range(15):
            nm = regname(n, S['cpsr'] & 0x1F)
            if E[nm] != S[nm] and not (hmode == (S['cpsr'] & 0x1F) and n in (13, 14)):
                bad.append('%s %#x != %#x' % (nm, E[nm], S[nm]))
        ls.res['nontrivial'].add('%s|%s|%s|h%s|it-%s|%s' % (kind, ret, 'T' if thumb else 'A', 'T' if hthumb else 'A', itpos, mode))
        if bad:
            ls.report('C12|roundtrip|%s|%s|%s' % (kind, ret + ('-thumb' if hthumb else '-arm'), bad[0].split(' ')[0]),
                      dict(desc, handler_thumb=hthumb, ret=ret, differences=bad[:5]), desc)
    ls.res['violations'] = list(ls.viol.values())
    return ls.res


def regname(n, mode):
    from vf.ref.model import RefCPU
    return RefCPU.rname(_ModeOnly(mode), n)


class _ModeOnly:
    def __init__(self, mode):
        self.mode = mode


# ------------------------------------------------------------------------------------------ (d) coprocessor gating
def gating(spec):
    from vf import lockstep, scen, machine as M, observe
    from armulator.armv6.arm_exceptions import UndefinedInstructionException
    rng = rng_for(ID, 'gating', spec['seed'])
    ls = lockstep.LockStep(ID, rng)
    for ctxkey in [('v7-vmsa-virt', 'off'), ('v6-pmsa-sec', 'off'), ('v6-pmsa', 'off')]:
        ctx = ls.ctx(ctxkey)
        cfg = ctx.cfg
        for cp in range(14):
            if cp in (10, 11):
                continue
            for cpacr in range(4):
                for nsacr_bit in (0, 1):
                    for tcp in (0, 1):
                        for ns in ((0, 1) if cfg['have_security_ext'] else (0,)):
                            for mode in ctx.legal_modes(ns):
                                for rep in range(spec['reps']):
                                    scen.prepare(ctx, rng, 'arm', 0xEE000010 | (cp << 8), mode=mode, ns=ns)
                                    cpu = ctx.cpu
                                    r = cpu.registers
                                    r.cpacr.set_cp_n(cp, cpacr)
                                    r.nsacr.set_cp_n(cp, nsacr_bit)
                                    r.hcptr.set_tcp_n(cp, tcp)
                                    M.activate(cpu)
                                    pre_mode = r.cpsr.m
                                    secure = (not cfg['have_security_ext']) or ns == 0 or mode == 'mon'
                                    hyp = mode == 'hyp'
                                    # ---- independent decision (B1.11.2 / B4.1.40 / B4.1.110 / B4.1.57)
                                    exp = 'accepted'
                                    if cfg['have_security_ext'] and not secure and not nsacr_bit:
                                        exp = 'undefined'
                                    elif not (cfg['have_virt_ext'] and hyp) and cpacr == 0:
                                        exp = 'undefined'
                                    elif not (cfg['have_virt_ext'] and hyp) and cpacr == 1 and mode == 'usr':
                                        exp = 'undefined'
                                    elif not (cfg['have_virt_ext'] and hyp) and cpacr == 2:
                                        exp = 'unpredictable'
                                    elif cfg['have_security_ext'] and cfg['have_virt_ext'] and not secure and tcp:
                                        exp = 'undefined' if hyp else 'hyptrap'
                                    try:
                                        cpu.coproc_accepted(cp, 0xEE000010 | (cp << 8))
                                        got = 'hyptrap' if (r.cpsr.m == 0b11010 and pre_mode != 0b11010) else 'accepted-returned'
                                    except UndefinedInstructionException:
                                        got = 'undefined'
                                    except NotImplementedError:
                                        # the mock back-end is reached: accepted - unless the Hyp trap was taken first
                                        got = 'hyptrap' if (r.cpsr.m == 0b11010 and pre_mode != 0b11010) else 'accepted'
                                    except Exception as ex:
                                        got = 'HOST:' + type(ex).__name__
                                    ls.res['evaluations'] += 1
                                    ls.bump('gating_' + exp)
                                    ls.res['nontrivial'].add('cp%d|%d|%d|%d|%s|%d|%s' % (cp, cpacr, nsacr_bit, tcp, mode, ns, ctxkey[0]))
                                    if exp == 'unpredictable':
                                        continue
                                    if got != exp:
                                        ls.report('C12|coproc-gating|expected-%s|got-%s' % (exp, got),
                                                  'cp%d CPACR=%s NSACR.cp=%d HCPTR.tcp=%d mode %s ns=%d on %s' % (
                                                      cp, format(cpacr, '02b'), nsacr_bit, tcp, mode, ns, ctxkey[0]),
                                                  dict(cp=cp, cpacr=cpacr, nsacr=nsacr_bit, tcp=tcp, mode=mode, ns=ns))
    ls.res['violations'] = list(ls.viol.values())
    return ls.res


def replay(data):
    if 'word' in data.get('replay', {}) and 'regs' in data['replay']:
        return L.replay_rows(ID, data)
    return dict(evaluations=0, violations=[])


def finish(agg, tier, seed):
    inc = L.finish_rows(agg)
    c = agg['counters']
    for k in ('svc', 'udf', 'irq', 'fiq', 'dabort'):
        if c.get('roundtrips_' + k, 0) < 100:
            inc.append('too few %s round trips' % k)
    if c.get('gating_undefined', 0) < 100 or c.get('gating_accepted', 0) < 100:
        inc.append('coprocessor gating not exercised')
    if c.get('negative_invariants_checked', 0) < 1000:
        inc.append('negative invariants evaluated too rarely')
    return dict(inconclusive=inc, coverage=dict(
        rows_exercised=len(agg['sets'].get('rows', ())),
        exhaustive_subspaces=['coprocessor gating: cp0-9,12,13 x CPACR field x NSACR bit x HCPTR bit x legal mode x security state'],
        explanation='gating matrix enumerated completely; PSR values, masks and round trips sampled'))
