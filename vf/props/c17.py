"""C17 — bit-vector primitives and register field views.
Direct calls of the repository's helpers compared with vf/ref/bits.py (written from the ARM ARM
pseudocode): exhaustive at widths 1..8, all 4096 x 2 modified immediates, all (type, imm5); corners and
random at widths 32/64 with shift amounts 0..255.  Field views: a table of architectural bit positions
(written from the manual) checked by read-back and by "an in-range write changes exactly the field"."""
import itertools
from vf.common import use_repo, rng_for
use_repo()
from vf.ref import bits as R      # noqa: E402

ID = 'C17'
LEVEL = 'exploration'
RULE = ('case = one direct call of a helper of bits_ops.py / shift.py compared with the reference primitive, or one '
        'read / write of a named register field compared with the architectural bit positions; helpers enumerated '
        'exhaustively for widths 1..8 (all operands, shifts 0..2w+2, both carries), all 2x4096 modified immediates '
        'with both carries, all (type, imm5), corner+random operands at widths 32 and 64 with every shift 0..255; bit-field insert / extract on 33-, 40- and 64-bit images with non-zero bits above the field; '
        'fields: every in-range value for fields <= 8 bits (corners beyond) over zero / ones / random backgrounds; '
        'RGNR.REGION under eight configured region counts; non-trivial = result differs from the first operand or the write changes the register; distinct = '
        '(function, width, shift class) or (class.field, value class, background)')
ASSUMPTIONS = ['vf/ref/bits.py transcribes the ARM ARM pseudocode functions',
               'the field table in this file is the architectural bit assignment (DDI 0406C B3/B4/B6, ARM1176 TRM for '
               'SUNAVCR); fields I could not place from the manual are left out']

CORNERS = [0, 1, 2, 3, 0x7F, 0x80, 0xFF, 0x100, 0x7FFF, 0x8000, 0xFFFF, 0x10000, 0x7FFFFFFF, 0x80000000, 0x80000001,
           0xFFFFFFFE, 0xFFFFFFFF, 0x55555555, 0xAAAAAAAA, 0x12345678, 0xF0F0F0F0, 0x00FF00FF]
CORNERS64 = [0, 1, 0xFFFFFFFF, 0x100000000, 0x7FFFFFFFFFFFFFFF, 0x8000000000000000, 0xFFFFFFFFFFFFFFFF,
             0x0123456789ABCDEF, 0x8000000000000001, 0xFFFFFFFF00000000]


def plan(tier, seed):
    q = tier == 'quick'
    specs = [dict(kind='small', seed=seed, shard=w, width=w) for w in range(1, 9)]
    specs += [dict(kind='imm', seed=seed, shard=0), dict(kind='fields', seed=seed, shard=0)]
    for i in range(4 if q else 32):
        specs.append(dict(kind='wide', seed=seed, shard=i, n=400 if q else 4000))
    return specs


class Mon:
    def __init__(self, spec):
        self.res = dict(evaluations=0, nontrivial=set(), counters={}, violations=[], samples=[], sets={'functions': set(), 'fields': set()})
        self.viol = {}

    def bump(self, k, n=1):
        c = self.res['counters']
        c[k] = c.get(k, 0) + n

    def cmp(self, fname, args, got_fn, exp, tag, nontrivial=True):
        self.res['evaluations'] += 1
        try:
            got = got_fn()
            if isinstance(got, tuple):
                got = tuple(int(g) if isinstance(g, bool) is False and isinstance(g, int) else g for g in got)
        except Exception as ex:
            got = 'EXC:%s' % type(ex).__name__
        self.res['sets']['functions'].add(fname)
        if nontrivial:
            self.res['nontrivial'].add('%s|%s' % (fname, tag))
        if not same(got, exp):
            key = 'C17|helper|%s|%s' % (fname, tag.split('|')[0])
            if key not in self.viol:
                self.viol[key] = dict(key=key, desc='%s%r returned %r, pseudocode gives %r' % (fname, args, got, exp),
                                      replay=dict(fn=fname, args=list(args)), count=0)
            self.viol[key]['count'] += 1


def same(got, exp):
    if isinstance(exp, tuple):
        return isinstance(got, tuple) and len(got) == len(exp) and all(same(g, e) for g, e in zip(got, exp))
    if isinstance(exp, bool):
        return bool(got) == exp and isinstance(got, (bool, int))
    return got == exp and not isinstance(got, str)


def srtype(name):
    from armulator.armv6.shift import SRType
    return getattr(SRType, name)


def check_shifts(mon, x, n, amount, cin, tag):
    from armulator.armv6 import shift as S
    if amount > 0:
        mon.cmp('lsl_c', (x, n, amount), lambda: S.lsl_c(x, n, amount), R.LSL_C(x, n, amount), tag)
        mon.cmp('lsr_c', (x, n, amount), lambda: S.lsr_c(x, n, amount), R.LSR_C(x, n, amount), tag)
        mon.cmp('asr_c', (x, n, amount), lambda: S.asr_c(x, n, amount), R.ASR_C(x, n, amount), tag)
        mon.cmp('ror_c', (x, n, amount), lambda: S.ror_c(x, n, amount), R.ROR_C(x, n, amount), tag)
    mon.cmp('lsl', (x, n, amount), lambda: S.lsl(x, n, amount), R.LSL(x, n, amount), tag)
    mon.cmp('lsr', (x, n, amount), lambda: S.lsr(x, n, amount), R.LSR(x, n, amount), tag)
    mon.cmp('asr', (x, n, amount), lambda: S.asr(x, n, amount), R.ASR(x, n, amount), tag)
    mon.cmp('ror', (x, n, amount), lambda: S.ror(x, n, amount), R.ROR(x, n, amount), tag)
    for t in ('LSL', 'LSR', 'ASR', 'ROR'):
        mon.cmp('shift_c', (x, n, t, amount, cin), lambda: S.shift_c(x, n, srtype(t), amount, cin),
                R.Shift_C(x, n, t, amount, cin), tag + '|' + t)
        mon.cmp('shift', (x, n, t, amount, cin), lambda: S.shift(x, n, srtype(t), amount, cin),
                R.Shift(x, n, t, amount, cin), tag + '|' + t)
    if amount == 1:
        mon.cmp('rrx_c', (x, n, cin), lambda: S.rrx_c(x, n, cin), R.RRX_C(x, n, cin), tag)
        mon.cmp('rrx', (x, n, cin), lambda: S.rrx(x, n, cin), R.RRX(x, n, cin), tag)
        mon.cmp('shift_c', (x, n, 'RRX', 1, cin), lambda: S.shift_c(x, n, srtype('RRX'), 1, cin),
                R.Shift_C(x, n, 'RRX', 1, cin), tag + '|RRX')
        mon.cmp('shift', (x, n, 'RRX', 1, cin), lambda: S.shift(x, n, srtype('RRX'), 1, cin),
                R.Shift(x, n, 'RRX', 1, cin), tag + '|RRX')


def check_arith(mon, x, y, n, cin, tag):
    from armulator.armv6 import bits_ops as B
    mon.cmp('add_with_carry', (x, y, cin, n), lambda: B.add_with_carry(x, y, cin, n), R.AddWithCarry(x, y, cin, n), tag)
    mon.cmp('add', (x, y, n), lambda: B.add(x, y, n), (x + y) % (1 << n), tag)
    mon.cmp('sub', (x, y, n), lambda: B.sub(x, y, n), (x - y) % (1 << n), tag)


def check_unary(mon, x, n, tag):
    from armulator.armv6 import bits_ops as B
    mon.cmp('to_signed', (x, n), lambda: B.to_signed(x, n), R.SInt(x, n), tag)
    mon.cmp('to_unsigned', (R.SInt(x, n), n), lambda: B.to_unsigned(R.SInt(x, n), n), x, tag)
    mon.cmp('lower_chunk', (x, n), lambda: B.lower_chunk(x | (1 << n), n), x, tag)
    mon.cmp('bit_count1', (x, 1, n), lambda: B.bit_count(x, 1, n), R.BitCount(x, n), tag)
    mon.cmp('bit_count0', (x, 0, n), lambda: B.bit_count(x, 0, n), n - R.BitCount(x, n), tag)
    mon.cmp('lowest_set_bit_ref', (x, n), lambda: B.lowest_set_bit_ref(x, n), R.LowestSetBit(x, n), tag)
    mon.cmp('is_ones', (x, n), lambda: B.is_ones(x, n), R.IsOnes(x, n), tag)
    mon.cmp('bit_not', (x, n), lambda: B.bit_not(x, n), x ^ ((1 << n) - 1), tag)
    for m in range(n, 2 * n + 1):
        mon.cmp('sign_extend', (x, n, m), lambda: B.sign_extend(x, n, m), R.SignExtend(x, n, m), tag + '|to%d' % (m - n))
    for hi in range(n):
        for lo in range(hi + 1):
            w = hi - lo + 1
            mon.cmp('substring', (x, hi, lo), lambda: B.substring(x, hi, lo), (x >> lo) & ((1 << w) - 1), tag, nontrivial=False)
        mon.cmp('bit_at', (x, hi), lambda: B.bit_at(x, hi), (x >> hi) & 1, tag, nontrivial=False)


def check_sat(mon, i, n, tag):
    from armulator.armv6 import bits_ops as B
    mon.cmp('signed_sat_q', (i, n), lambda: B.signed_sat_q(i, n), R.SignedSatQ(i, n), tag)
    mon.cmp('unsigned_sat_q', (i, n), lambda: B.unsigned_sat_q(i, n), R.UnsignedSatQ(i, n), tag)
    mon.cmp('signed_sat', (i, n), lambda: B.signed_sat(i, n), R.SignedSat(i, n), tag)
    mon.cmp('unsigned_sat', (i, n), lambda: B.unsigned_sat(i, n), R.UnsignedSat(i, n), tag)
    mon.cmp('sat_q(u)', (i, n, True), lambda: B.sat_q(i, n, True), R.UnsignedSatQ(i, n), tag)
    mon.cmp('sat_q(s)', (i, n, False), lambda: B.sat_q(i, n, False), R.SignedSatQ(i, n), tag)
    mon.cmp('sat(u)', (i, n, True), lambda: B.sat(i, n, True), R.UnsignedSat(i, n), tag)
    mon.cmp('sat(s)', (i, n, False), lambda: B.sat(i, n, False), R.SignedSat(i, n), tag)


def check_insert(mon, x, n, rng, tag):
    from armulator.armv6 import bits_ops as B
    for hi in range(n):
        for lo in range(hi + 1):
            w = hi - lo + 1
            for v in {0, (1 << w) - 1, rng.getrandbits(w)}:
                exp = (x & ~(((1 << w) - 1) << lo)) | (v << lo)
                mon.cmp('set_substring', (x, hi, lo, v), lambda: B.set_substring(x, hi, lo, v), exp, tag, nontrivial=(exp != x))
        for v in (0, 1):
            exp = (x & ~(1 << hi)) | (v << hi)
            mon.cmp('set_bit_at', (x, hi, v), lambda: B.set_bit_at(x, hi, v), exp, tag, nontrivial=(exp != x))
    for ll in range(1, n + 1):
        lo = x & ((1 << ll) - 1)
        h = rng.getrandbits(n)
        mon.cmp('chain', (h, lo, ll), lambda: B.chain(h, lo, ll), (h << ll) | lo, tag)


def small(mon, spec):
    """exhaustive at one width 1..8"""
    w = spec['width']
    rng = rng_for('C17', 'small', spec['seed'], w)
    tag = 'w%d' % w
    for x in range(1 << w):
        check_unary(mon, x, w, tag)
        check_insert(mon, x, w, rng, tag)
        for amount in range(0, 2 * w + 3):
            for cin in (0, 1):
                check_shifts(mon, x, w, amount, cin, tag + '|a%s' % ('0' if amount == 0 else ('lt' if amount < w else ('eq' if amount == w else 'gt'))))
        for y in range(1 << w):
            for cin in (0, 1):
                check_arith(mon, x, y, w, cin, tag)
    for i in range(-(1 << (w + 1)), (1 << (w + 1)) + 1):
        for n in range(1, w + 1):
            check_sat(mon, i, n, 'n%d' % n)
    mon.bump('small_widths_enumerated')


def imm(mon, spec):
    from armulator.armv6 import shift as S
    for imm12 in range(4096):
        for cin in (0, 1):
            mon.cmp('arm_expand_imm_c', (imm12, cin), lambda: S.arm_expand_imm_c(imm12, cin), R.ARMExpandImm_C(imm12, cin),
                    'rot%d' % (imm12 >> 8))
            e32, ec, unp = R.ThumbExpandImm_C(imm12, cin)
            if unp:
                mon.bump('thumb_expand_imm_unpredictable_skipped')
            else:
                mon.cmp('thumb_expand_imm_c', (imm12, cin), lambda: S.thumb_expand_imm_c(imm12, cin), (e32, ec),
                        'rotated' if imm12 >> 10 else 'pattern')
        mon.cmp('arm_expand_imm', (imm12,), lambda: S.arm_expand_imm(imm12), R.ARMExpandImm(imm12), 'rot%d' % (imm12 >> 8))
        if not R.ThumbExpandImm_C(imm12, 0)[2]:
            mon.cmp('thumb_expand_imm', (imm12,), lambda: S.thumb_expand_imm(imm12), R.ThumbExpandImm_C(imm12, 0)[0],
                    'rotated' if imm12 >> 10 else 'pattern')
    for t in range(4):
        for imm5 in range(32):
            et, en = R.DecodeImmShift(t, imm5)
            mon.cmp('decode_imm_shift', (t, imm5), lambda: S.decode_imm_shift(t, imm5), (srtype(et), en), 't%d' % t)
        mon.cmp('decode_reg_shift', (t,), lambda: S.decode_reg_shift(t), srtype(R.DecodeRegShift(t)), 't%d' % t)
    mon.bump('modified_immediates_enumerated', 4096 * 2)
    mon.bump('imm_shift_pairs_enumerated', 128)


def wide(mon, spec):
    from armulator.armv6 import bits_ops as B
    rng = rng_for('C17', 'wide', spec['seed'], spec['shard'])
    for i in range(spec['n']):
        for n, pool in ((32, CORNERS), (64, CORNERS64), (16, [0, 1, 0x7FFF, 0x8000, 0xFFFF])):
            x = rng.choice(pool) & ((1 << n) - 1) if rng.random() < 0.5 else rng.getrandbits(n)
            y = rng.choice(pool) & ((1 << n) - 1) if rng.random() < 0.5 else rng.getrandbits(n)
            cin = rng.randrange(2)
            amount = rng.choice([0, 1, 2, n - 1, n, n + 1, 2 * n, 255, rng.randrange(256), i % 256])
            tag = 'w%d|a%s' % (n, '0' if amount == 0 else ('lt' if amount < n else ('eq' if amount == n else 'gt')))
            check_shifts(mon, x, n, amount, cin, tag)
            check_arith(mon, x, y, n, cin, 'w%d' % n)
            if i % 16 == 0:
                mon.cmp('to_signed', (x, n), lambda: B.to_signed(x, n), R.SInt(x, n), 'w%d' % n)
                mon.cmp('sign_extend', (x & 0xFFFF, 16, n), lambda: B.sign_extend(x & 0xFFFF, 16, n), R.SignExtend(x & 0xFFFF, 16, n), 'w%d' % n)
                mon.cmp('bit_count1', (x, 1, n), lambda: B.bit_count(x, 1, n), R.BitCount(x, n), 'w%d' % n)
                mon.cmp('lowest_set_bit_ref', (x, n), lambda: B.lowest_set_bit_ref(x, n), R.LowestSetBit(x, n), 'w%d' % n)
        # bit-field insert into operands WIDER than the field's neighbourhood: 40- and 64-bit images (descriptors, the
        # 64-bit base registers, RdHi:RdLo) with non-zero bits above the field and above bit 31 - every bit outside <hi:lo> stays
        for n in (33, 40, 64):
            x = rng.getrandbits(n) | (1 << (n - 1)) | (rng.getrandbits(8) << (n - 9))
            hi = rng.choice([0, 1, 7, 11, 15, 30, 31, 32, n - 2, rng.randrange(n)])
            lo = rng.randrange(hi + 1)
            w = hi - lo + 1
            v = rng.choice([0, (1 << w) - 1, rng.getrandbits(w)])
            exp = (x & ~(((1 << w) - 1) << lo)) | (v << lo)
            mon.cmp('set_substring', (x, hi, lo, v), lambda: B.set_substring(x, hi, lo, v), exp, 'w%d|wide-operand' % n, nontrivial=(exp != x))
            bv = rng.randrange(2)
            exp = (x & ~(1 << hi)) | (bv << hi)
            mon.cmp('set_bit_at', (x, hi, bv), lambda: B.set_bit_at(x, hi, bv), exp, 'w%d|wide-operand' % n, nontrivial=(exp != x))
            mon.cmp('substring', (x, hi, lo), lambda: B.substring(x, hi, lo), (x >> lo) & ((1 << w) - 1), 'w%d|wide-operand' % n)
        for nb in (1, 2, 4, 8):
            v = rng.getrandbits(8 * nb)
            mon.cmp('big_endian_reverse', (v, nb), lambda: B.big_endian_reverse(v, nb), R.BigEndianReverse(v, nb), 'n%d' % nb)
        for al in (1, 2, 4, 8, 16):
            v = rng.getrandbits(32)
            mon.cmp('align', (v, al), lambda: B.align(v, al), R.Align(v, al), 'a%d' % al)
        big = rng.choice([rng.getrandbits(40) - (1 << 39), rng.getrandbits(66) - (1 << 65), rng.choice(CORNERS) - rng.choice(CORNERS)])
        for n in (8, 16, 32, rng.randrange(1, 33)):
            check_sat(mon, big, n, 'n%d' % n)
            check_sat(mon, rng.choice([(1 << (n - 1)) - 1, (1 << (n - 1)), -(1 << (n - 1)), -(1 << (n - 1)) - 1, (1 << n) - 1, 1 << n, -1, 0]), n, 'n%d|edge' % n)


# ------------------------------------------------------------------------------------------ field views
# (module, class, field accessor, [bit positions msb..lsb]) — positions from the ARM ARM register descriptions.
def rng_bits(hi, lo):
    return list(range(hi, lo - 1, -1))


F = []


def fld(mod, cls, name, hi, lo=None):
    F.append((mod, cls, name, rng_bits(hi, hi if lo is None else lo)))


for n_, b_ in (('n', 31), ('z', 30), ('c', 29), ('v', 28), ('q', 27), ('j', 24), ('e', 9), ('a', 8), ('i', 7), ('f', 6), ('t', 5)):
    fld('cpsr', 'CPSR', n_, b_)
fld('cpsr', 'CPSR', 'ge', 19, 16)
fld('cpsr', 'CPSR', 'm', 4, 0)
F.append(('cpsr', 'CPSR', 'it', rng_bits(15, 10) + [26, 25]))
F.append(('cpsr', 'CPSR', 'isetstate', [24, 5]))
for n_, b_ in (('m', 0), ('a', 1), ('c', 2), ('cp15ben', 5), ('b', 7), ('sw', 10), ('z', 11), ('i', 12), ('v', 13), ('rr', 14),
               ('ha', 17), ('br', 17), ('wxn', 19), ('dz', 19), ('uwxn', 20), ('fi', 21), ('u', 22), ('ve', 24), ('ee', 25),
               ('nmfi', 27), ('tre', 28), ('afe', 29), ('te', 30), ('ie', 31)):
    fld('sctlr', 'SCTLR', n_, b_)
for n_, b_ in (('ns', 0), ('irq', 1), ('fiq', 2), ('ea', 3), ('fw', 4), ('aw', 5), ('net', 6), ('scd', 7), ('hce', 8), ('sif', 9)):
    fld('scr', 'SCR', n_, b_)
for n_, b_ in (('nsd32dis', 14), ('nsasedis', 15), ('rfr', 19), ('nstrcdis', 20)):
    fld('nsacr', 'NSACR', n_, b_)
for n_, b_ in (('vm', 0), ('swio', 1), ('ptw', 2), ('fmo', 3), ('imo', 4), ('amo', 5), ('vf', 6), ('vi', 7), ('va', 8), ('fb', 9),
               ('dc', 12), ('twi', 13), ('twe', 14), ('tsc', 19), ('tidcp', 20), ('tac', 21), ('tsw', 22), ('tpc', 23),
               ('tpu', 24), ('ttlb', 25), ('tvm', 26), ('tge', 27)):
    fld('hcr', 'HCR', n_, b_)
fld('hcr', 'HCR', 'bsu', 11, 10)
for n_, b_ in (('m', 0), ('a', 1), ('c', 2), ('cp15ben', 5), ('i', 12), ('wxn', 19), ('fi', 21), ('ee', 25), ('te', 30)):
    fld('hsctlr', 'HSCTLR', n_, b_)
fld('ttbcr', 'TTBCR', 'n', 2, 0)
fld('ttbcr', 'TTBCR', 'pd0', 4)
fld('ttbcr', 'TTBCR', 'pd1', 5)
fld('ttbcr', 'TTBCR', 'eae', 31)
fld('ttbcr', 'TTBCR', 't0sz', 2, 0)
fld('ttbcr', 'TTBCR', 'epd0', 7)
fld('ttbcr', 'TTBCR', 'irgn0', 9, 8)
fld('ttbcr', 'TTBCR', 'orgn0', 11, 10)
fld('ttbcr', 'TTBCR', 'sh0', 13, 12)
fld('ttbcr', 'TTBCR', 't1sz', 18, 16)
fld('ttbcr', 'TTBCR', 'a1', 22)
fld('ttbcr', 'TTBCR', 'epd1', 23)
fld('ttbcr', 'TTBCR', 'irgn1', 25, 24)
fld('ttbcr', 'TTBCR', 'orgn1', 27, 26)
fld('ttbcr', 'TTBCR', 'sh1', 29, 28)
for n_, b_ in (('cm', 13), ('ext', 12), ('wnr', 11), ('lpae', 9)):
    fld('dfsr', 'DFSR', n_, b_)
fld('dfsr', 'DFSR', 'domain', 7, 4)
fld('dfsr', 'DFSR', 'status', 5, 0)
F.append(('dfsr', 'DFSR', 'fs', [10, 3, 2, 1, 0]))
for n_, b_ in (('trcdis', 28), ('d32dis', 30), ('asedis', 31)):
    fld('cpacr', 'CPACR', n_, b_)
for n_, b_ in (('tase', 15), ('tta', 20), ('tcpac', 31)):
    fld('hcptr', 'HCPTR', n_, b_)
fld('fcseidr', 'FCSEIDR', 'pid', 31, 25)
fld('mpuir', 'MPUIR', 'nu', 0)
fld('mpuir', 'MPUIR', 'dregion', 15, 8)
fld('mpuir', 'MPUIR', 'iregion', 23, 16)
for c_ in ('DRSR', 'IRSR'):
    fld('rsr', c_, 'en', 0)
    fld('rsr', c_, 'rsize', 5, 1)
for c_ in ('DRACR', 'IRACR'):
    fld('racr', c_, 'b', 0)
    fld('racr', c_, 'c', 1)
    fld('racr', c_, 's', 2)
    fld('racr', c_, 'tex', 5, 3)
    fld('racr', c_, 'ap', 10, 8)
    fld('racr', c_, 'xn', 12)
fld('hsr', 'HSR', 'ec', 31, 26)
fld('hsr', 'HSR', 'il', 25)
fld('hsr', 'HSR', 'iss', 24, 0)
fld('hstr', 'HSTR', 'ttee', 16)
fld('hstr', 'HSTR', 'tjdbx', 17)
fld('hdcr', 'HDCR', 'hpmn', 4, 0)
for n_, b_ in (('tpmcr', 5), ('tpm', 6), ('hpme', 7), ('tde', 8), ('tda', 9), ('tdosa', 10), ('tdra', 11)):
    fld('hdcr', 'HDCR', n_, b_)
fld('hpfar', 'HPFAR', 'fipa', 31, 4)
fld('htcr', 'HTCR', 't0sz', 2, 0)
fld('htcr', 'HTCR', 'irgn0', 9, 8)
fld('htcr', 'HTCR', 'orgn0', 11, 10)
fld('htcr', 'HTCR', 'sh0', 13, 12)
fld('vtcr', 'VTCR', 't0sz', 3, 0)
fld('vtcr', 'VTCR', 's', 4)
fld('vtcr', 'VTCR', 'sl0', 7, 6)
fld('vtcr', 'VTCR', 'irgn0', 9, 8)
fld('vtcr', 'VTCR', 'orgn0', 11, 10)
fld('vtcr', 'VTCR', 'sh0', 13, 12)
for n_, b_ in (('ds0', 16), ('ds1', 17), ('ns0', 18), ('ns1', 19)):
    fld('prrr', 'PRRR', n_, b_)
fld('jmcr', 'JMCR', 'je', 0)
fld('teecr', 'TEECR', 'xed', 0)
fld('fpexc', 'FPEXC', 'en', 30)
fld('fpexc', 'FPEXC', 'ex', 31)
fld('midr', 'MIDR', 'revision', 3, 0)
fld('midr', 'MIDR', 'primary_part_number', 15, 4)
fld('midr', 'MIDR', 'architecture', 19, 16)
fld('midr', 'MIDR', 'variant', 23, 20)
fld('midr', 'MIDR', 'implementer', 31, 24)
fld('dbgdidr', 'DBGDIDR', 'wrps', 31, 28)
fld('dbgdidr', 'DBGDIDR', 'brps', 27, 24)
fld('dbgdidr', 'DBGDIDR', 'ctx_cmps', 23, 20)
fld('dbgdidr', 'DBGDIDR', 'version', 19, 16)
for n_, b_ in (('devid_imp', 15), ('nsuhd_imp', 14), ('pcsr_imp', 13), ('se_imp', 12)):
    fld('dbgdidr', 'DBGDIDR', n_, b_)
fld('dbgdidr', 'DBGDIDR', 'variant', 7, 4)
fld('dbgdidr', 'DBGDIDR', 'revision', 3, 0)
fld('id_pfr1', 'IdPfr1', 'pm', 3, 0)
fld('id_pfr1', 'IdPfr1', 'se', 7, 4)
fld('id_pfr1', 'IdPfr1', 'm_profile', 11, 8)
fld('id_pfr1', 'IdPfr1', 've', 15, 12)
fld('id_pfr1', 'IdPfr1', 'gt', 19, 16)
fld('sder', 'SDER', 'suiden', 0)
fld('sder', 'SDER', 'suniden', 1)
for n_, b_ in (('e', 0), ('p', 1), ('c', 2), ('d', 3), ('x', 4), ('dp', 5)):
    fld('pmcr', 'PMCR', n_, b_)
fld('pmcr', 'PMCR', 'n', 15, 11)
fld('pmcr', 'PMCR', 'idcode', 23, 16)
fld('pmcr', 'PMCR', 'imp', 31, 24)
fld('sunavcr', 'SUNAVCR', 'v', 0)

# indexed accessors: (module, class, getter, setter, index range, positions(n))
INDEXED = [
    ('cpacr', 'CPACR', 'get_cp_n', 'set_cp_n', range(14), lambda n: [2 * n + 1, 2 * n]),
    ('nsacr', 'NSACR', 'get_cp_n', 'set_cp_n', range(14), lambda n: [n]),
    ('dacr', 'DACR', 'get_d_n', 'set_d_n', range(16), lambda n: [2 * n + 1, 2 * n]),
    ('hcptr', 'HCPTR', 'get_tcp_n', 'set_tcp_n', range(14), lambda n: [n]),
    ('hcr', 'HCR', 'get_tid_n', 'set_tid_n', range(4), lambda n: [15 + n]),
    ('hstr', 'HSTR', 'get_t_n', 'set_t_n', range(16), lambda n: [n]),
    ('nmrr', 'NMRR', 'get_ir_n', 'set_ir_n', range(8), lambda n: [2 * n + 1, 2 * n]),
    ('nmrr', 'NMRR', 'get_or_n', 'set_or_n', range(8), lambda n: [2 * n + 17, 2 * n + 16]),
    ('prrr', 'PRRR', 'get_tr_n', 'set_tr_n', range(8), lambda n: [2 * n + 1, 2 * n]),
    ('prrr', 'PRRR', 'get_nos_n', 'set_nos_n', range(8), lambda n: [24 + n]),
    ('rsr', 'DRSR', 'get_sd_n', 'set_sd_n', range(8), lambda n: [8 + n]),
    ('vbar', 'VBAR', 'get_base_address', 'set_base_address', None, lambda n: rng_bits(31, 5)),
]


def gather(value, positions):
    v = 0
    for p in positions:
        v = (v << 1) | ((value >> p) & 1)
    return v


def scatter(value, positions):
    out = 0
    k = len(positions)
    for i, p in enumerate(positions):
        if (value >> (k - 1 - i)) & 1:
            out |= 1 << p
    return out


def fields(mon, spec):
    import importlib
    from vf import scen
    scen.Ctx('v6-pmsa-sec')           # activates a configuration (register constructors read reset values)
    rng = rng_for('C17', 'fields', spec['seed'])

    def judge(label, inst, get, put, positions):
        mask = scatter((1 << len(positions)) - 1, positions)
        k = len(positions)
        values = range(1 << k) if k <= 8 else sorted({0, 1, (1 << k) - 1, 1 << (k - 1), (1 << k) - 2} | {rng.getrandbits(k) for _ in range(40)})
        backgrounds = [0, 0xFFFFFFFF, rng.getrandbits(32), rng.getrandbits(32), mask, ~mask & 0xFFFFFFFF]
        # the field's own bits one at a time (set alone / clear alone) and, for a field made of several pieces (ITSTATE:
        # CPSR<15:10> and <26:25>), each piece alone: a setter that looks at the current contents of one piece to decide
        # what to do with another shows only there
        if k <= 8:
            backgrounds += [1 << p for p in positions] + [0xFFFFFFFF ^ (1 << p) for p in positions]
        runs, cur = [], [positions[0]]
        for p in positions[1:]:
            if abs(p - cur[-1]) == 1:
                cur.append(p)
            else:
                runs.append(cur)
                cur = [p]
        runs.append(cur)
        if len(runs) > 1:
            for run in runs:
                rm = sum(1 << p for p in run)
                backgrounds += [rm, (rng.getrandbits(32) & ~mask) | rm, (rng.getrandbits(32) | mask) & ~rm & 0xFFFFFFFF]
        mon.res['sets']['fields'].add(label)
        for bg in backgrounds:
            # read-back
            inst.value = bg
            mon.res['evaluations'] += 1
            got = get()
            exp = gather(bg, positions)
            if got != exp:
                report(label, 'read', 'reading %s from %#010x gives %r, architectural bits %s give %#x' % (label, bg, got, positions, exp))
            for v in values:
                inst.value = bg
                mon.res['evaluations'] += 1
                try:
                    put(v)
                except Exception as ex:
                    report(label, 'write-raises', 'writing %#x to %s raised %s' % (v, label, type(ex).__name__))
                    continue
                exp = (bg & ~mask) | scatter(v, positions)
                if exp != bg:
                    mon.res['nontrivial'].add('%s|%s|%s' % (label, 'all' if k <= 8 else 'corner', 'bg%d' % min(backgrounds.index(bg), 6)))
                if inst.value != exp:
                    report(label, 'write', 'writing %#x to %s over %#010x gives %#010x, expected %#010x (bits %s)' % (
                        v, label, bg, inst.value, exp, positions))

        # a raw write of the register image between two reads, with no field write in between: a view that remembers what
        # it decoded last time shows only here
        for a_, b_ in zip(backgrounds, backgrounds[1:] + backgrounds[:1]):
            inst.value = a_
            get()
            inst.value = b_
            mon.res['evaluations'] += 1
            got = get()
            exp = gather(b_, positions)
            if got != exp:
                report(label, 'read-after-raw-write', 'reading %s after the image changed from %#010x to %#010x gives %r, bits %s give %#x' % (
                    label, a_, b_, got, positions, exp))

    def report(label, what, desc):
        key = 'C17|field|%s|%s' % (label, what)
        if key not in mon.viol:
            mon.viol[key] = dict(key=key, desc=desc, replay=dict(field=label), count=0)
        mon.viol[key]['count'] += 1

    def make(modname, clsname):
        mod = importlib.import_module('armulator.armv6.all_registers.' + modname)
        return getattr(mod, clsname)()

    for modname, clsname, name, positions in F:
        inst = make(modname, clsname)
        if not isinstance(getattr(type(inst), name, None), property):
            mon.bump('table_fields_missing_in_repo')
            continue
        judge('%s.%s' % (clsname, name), inst, lambda: getattr(inst, name), lambda v: setattr(inst, name, v), positions)
    for modname, clsname, g, s, idx, pos in INDEXED:
        inst = make(modname, clsname)
        if idx is None:
            judge('%s.%s' % (clsname, g), inst, getattr(inst, g), getattr(inst, s), pos(0))
        else:
            for n in idx:
                judge('%s.%s(%d)' % (clsname, g, n), inst, lambda: getattr(inst, g)(n), lambda v: getattr(inst, s)(n, v), pos(n))
    # a field whose width depends on the configuration: RGNR.REGION holds ceil(log2(number of MPU regions)) bits
    # (region counts that are powers of two are left out: the repository gives them one spare bit, which is harmless)
    from armulator.armv6.all_registers.rgnr import RGNR
    for nreg in (3, 5, 6, 10, 12, 20, 24, 40):
        inst = RGNR(nreg)
        width = max(1, (nreg - 1).bit_length())
        judge('RGNR(%d regions).region' % nreg, inst, inst.get_region, inst.set_region, list(range(width - 1, -1, -1)))
    # every property the repository defines must be in the table (otherwise the run says so)
    import pkgutil
    import armulator.armv6.all_registers as AR
    known = {(c, n) for _, c, n, _ in F}
    missing = []
    for m in pkgutil.iter_modules(AR.__path__):
        mod = importlib.import_module('armulator.armv6.all_registers.' + m.name)
        for cname, cls in vars(mod).items():
            if isinstance(cls, type) and cls.__module__ == mod.__name__:
                for pname, p in vars(cls).items():
                    if isinstance(p, property) and (cname, pname) not in known and pname != 'apsr':
                        missing.append('%s.%s' % (cname, pname))
                    if pname.startswith('get_') and callable(p) and not any(c == cname and g == pname for _, c, g, _, _, _ in INDEXED) \
                            and (cname, pname) != ('RGNR', 'get_region'):
                        missing.append('%s.%s()' % (cname, pname))
    mon.bump('repo_fields_not_in_table', len(missing))
    if missing:
        mon.res['samples'].append(dict(fields_not_judged=missing))


def run_shard(spec):
    mon = Mon(spec)
    {'small': small, 'imm': imm, 'wide': wide, 'fields': fields}[spec['kind']](mon, spec)
    if spec['kind'] == 'imm':
        mon.res['samples'].append(dict(fn='thumb_expand_imm_c', args=[0x4FF, 0], reference=list(R.ThumbExpandImm_C(0x4FF, 0)[:2])))
    mon.res['violations'] = list(mon.viol.values())
    return mon.res


def replay(data):
    out = dict(evaluations=1, violations=[])
    mon = Mon({})
    rp = data['replay']
    if 'field' in rp:
        fields(mon, dict(seed=0))
    elif rp['fn'].startswith(('arm_expand', 'thumb_expand', 'decode_')):
        imm(mon, dict(seed=0))
    else:
        for w in range(1, 9):
            small(mon, dict(seed=0, width=w))
    out['violations'] = [v for v in mon.viol.values() if v['key'] == data['key']]
    return out


def finish(agg, tier, seed):
    c = agg['counters']
    inc = []
    if c.get('small_widths_enumerated', 0) != 8:
        inc.append('not all widths 1..8 enumerated')
    if c.get('modified_immediates_enumerated', 0) != 8192:
        inc.append('modified immediates not enumerated')
    if len(agg['sets'].get('fields', ())) < 250:
        inc.append('only %d register fields judged' % len(agg['sets'].get('fields', ())))
    return dict(inconclusive=inc, coverage=dict(
        exhaustive_subspaces=['all helper operands at widths 1..8 with shifts 0..2w+2 and both carries',
                              'all 4096 x 2 ARM and Thumb modified immediates', 'all 128 (type, imm5) pairs',
                              'every in-range value of every register field <= 8 bits wide over 6 backgrounds'],
        functions_checked=sorted(agg['sets'].get('functions', ())),
        fields_checked=len(agg['sets'].get('fields', ())),
        explanation='exhaustive for the sub-spaces named; widths 16/32/64 sampled on corners and random values'))
