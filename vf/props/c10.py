"""C10 — register-file integrity.
 (a) range invariant: after every real step from an in-range state, every core register (all banks), PC,
     SPSR, ELR_hyp and CPSR is an int in 0..2^32-1 — swept at the step boundary over every decoder path,
     with corner-valued registers and code placed next to 0 and next to 2^32;
 (b) banking history checker: random histories over the public register API (set/get, set_rmode/get_rmode,
     set_spsr/get_spsr, mode changes, exception entries) with unique written values, audited after every
     operation against a 30-line sequential bank model;
 (c) instructions that name another bank or switch banks (LDM/STM user registers, SRS/RFE, CPS, MSR, exception
     returns), in every mode, in lock-step with the reference step: the full register file is compared."""
import random
from vf.common import use_repo, rng_for
use_repo()

ID = 'C10'
LEVEL = 'exploration'
RULE = ('range part: case = one real step on a word from every ARM/Thumb-32 decoder path or any Thumb-16 word, with '
        'corner-valued registers, in every mode, code at 0x10000 / 0x0 / 0xFFFFFFF0 / 0xFFFFFFFC; banking part: case = '
        'one operation of a 150-operation history over the register API with a full audit of all 43 bank cells after '
        'every operation; instruction part: case = one word of a bank-naming instruction (LDM/STM user registers, SRS, RFE, CPS, '
        'MSR, exception returns) x mode x configuration stepped in lock-step with the reference, whole register file '
        'compared; non-trivial = step wrote a register / operation wrote a cell; distinct = (decoder path or '
        'T16 word>>4, executed class, code address class) or (operation kind, register, current mode, target mode)')
ASSUMPTIONS = ['bank model: R0-R7 one copy; R8-R12 usr/fiq; SP per mode with usr=sys; LR per mode with usr=sys=hyp; '
               'SPSR per exception mode (ARM ARM B1.3.2)',
               'exception-entry target mode and LR/SPSR values are not judged here (C11), only that nothing else moved',
               'instruction part: vf/ref transcribes the ARM ARM pseudocode of the bank-naming instructions']
SHARD_TIMEOUT = {'quick': 900, 'thorough': 7200}

CTXS = [('v6-pmsa-sec', 'off'), ('v7-pmsa-r', 'off'), ('v7-vmsa-sec', 'off'), ('v7-vmsa-virt', 'off'), ('v5-pmsa', 'off'),
        ('v4-pmsa', 'off'), ('v6-pmsa-sec', 'mpu')]
CODES = [0x10000, 0x10000, 0x0, 0x4, 0xFFFFFFF0, 0xFFFFFFFC, 0xFFFFFFF8, 0xFFFFF000]
RANGE_VALUES = [0, 1, 2, 3, 4, 8, 0x7FFFFFFF, 0x80000000, 0xFFFFFFFF, 0xFFFFFFFE, 0xFFFFFFFC, 0xFFFFFFF8, 0xFFFFFFF0,
                0xFFFFF000, 0xFFFFFF00, 0x100, 0x1000, 0x7FFC, 0x11000, 0x10, 0x20, 0x3F, 0x40, 0xFF, 0x7F, 0x80]


def plan(tier, seed):
    q = tier == 'quick'
    specs = []
    for i in range(12 if q else 48):
        specs.append(dict(kind='paths', seed=seed, shard=i, of=12 if q else 48, per_path=60 if q else 3000))
    nt = 8 if q else 32
    for i in range(nt):
        specs.append(dict(kind='t16', seed=seed, shard=i, lo=i * (65536 // nt), hi=(i + 1) * (65536 // nt),
                          reps=1 if q else 6))
    for i in range(6 if q else 32):
        specs.append(dict(kind='bank', seed=seed, shard=i, histories=250 if q else 6000))
    from vf.props import _lock as L
    specs += L.plan_rows(ID, BANK_FAMILY, tier, seed, 300, 12000, 6, 32)
    return specs


def in_range(v):
    return isinstance(v, int) and 0 <= v <= 0xFFFFFFFF


def role(name):
    if name == 'PC':
        return 'PC'
    if name.startswith('SP'):
        return 'SP'
    if name.startswith('LR'):
        return 'LR'
    if name.startswith('spsr') or name in ('elr_hyp', 'cpsr'):
        return name.split('_')[0]
    return 'Rn'


class Mon:
    def __init__(self, spec):
        from vf import scen
        self.scen = scen
        self.ctxs = {}
        self.res = dict(evaluations=0, nontrivial=set(), counters={}, violations=[], samples=[], sets={})
        self.viol = {}
        self.rng = rng_for('C10', spec['kind'], spec['seed'], spec['shard'])

    def ctx(self, key):
        if key not in self.ctxs:
            self.ctxs[key] = self.scen.Ctx(*key)
        return self.ctxs[key]

    def bump(self, k, n=1):
        c = self.res['counters']
        c[k] = c.get(k, 0) + n

    def report(self, key, desc, replay):
        if key not in self.viol:
            self.viol[key] = dict(key=key, desc=desc, replay=replay, count=0)
        self.viol[key]['count'] += 1

    def one(self, kind, word, tag):
        from vf import observe
        rng = self.rng
        scen = self.scen
        ctxkey = CTXS[rng.randrange(len(CTXS))]
        ctx = self.ctx(ctxkey)
        ns = rng.randrange(2) if ctx.cfg['have_security_ext'] else 0
        mode = rng.choice(ctx.legal_modes(ns))
        code = rng.choice(CODES)
        if kind != 'arm':
            code &= ~1
        itpos = 'out' if kind == 'arm' else rng.choice(['out', 'out', 'last'])
        regs = [rng.choice(RANGE_VALUES) if rng.random() < 0.7 else scen.reg_value(rng) for _ in range(15)]
        desc = scen.prepare(ctx, rng, kind, word, mode=mode, itpos=itpos, ns=ns, code=code, regs=regs)
        desc['code'] = '%#x' % code
        cpu = ctx.cpu
        r = cpu.registers
        if rng.random() < 0.3:
            r.sctlr.v = 1
        r.vbar.value = rng.choice([0, 0xFFFFFFE0, 0x7000])
        r.mvbar = rng.choice([0, 0xFFFFFFE0])
        r.hvbar = rng.choice([0, 0xFFFFFFE0])
        k, sig = scen.step(cpu)
        self.res['evaluations'] += 1
        post = observe.snapshot(cpu, mem=False)
        cls = type(cpu.executed_opcode).__name__
        bad = [(n, v) for n, v in observe.all_int_locations(post) if not in_range(v)]
        if cpu.registers.changed_registers != [False] * 16 or k != 'ok':
            self.res['nontrivial'].add('%s|%s|%s|%s' % (kind, tag, cls, 'top' if code >= 0xFFFFF000 else ('low' if code < 16 else 'mid')))
        self.bump('steps_' + k)
        if code >= 0xFFFFFFF0 or code < 8:
            self.bump('steps_code_at_address_space_edge')
        if bad:
            roles = sorted({role(n) for n, v in bad})
            self.report('C10|out-of-range|%s|%s' % (cls, ','.join(roles)),
                        dict(desc, bad=[(n, str(v)[:40]) for n, v in bad[:4]]), desc)
        if len(self.res['samples']) < 2 and rng.random() < 0.002:
            self.res['samples'].append(desc)


# ---------------------------------------------------------------------------------- banking model
MODE_BITS = {'usr': 0b10000, 'fiq': 0b10001, 'irq': 0b10010, 'svc': 0b10011, 'mon': 0b10110, 'abt': 0b10111,
             'hyp': 0b11010, 'und': 0b11011, 'sys': 0b11111}


def cell(n, mode):
    """the bank cell a register number names in a mode — written from the architecture's banking table"""
    if n <= 7:
        return ('R%d' % n, 'all')
    if n <= 12:
        return ('R%d' % n, 'fiq' if mode == 'fiq' else 'usr')
    if n == 13:
        return ('SP', 'usr' if mode in ('usr', 'sys') else mode)
    if n == 14:
        return ('LR', 'usr' if mode in ('usr', 'sys', 'hyp') else mode)
    raise ValueError(n)


def bank_histories(mon, spec):
    from vf import machine as M
    rng = mon.rng
    counter = [0]

    def fresh_value():
        counter[0] += 1
        return (counter[0] * 2654435761 + 0x9E3779B1) & 0xFFFFFFFF

    for h in range(spec['histories']):
        ctxkey = rng.choice([('v6-pmsa-sec', 'off'), ('v7-vmsa-virt', 'off'), ('v6-pmsa', 'off'), ('v7-vmsa-sec', 'off')])
        ctx = mon.ctx(ctxkey)
        cpu = ctx.fresh()
        r = cpu.registers
        cfg = ctx.cfg
        ns = 1 if (cfg['have_virt_ext'] and rng.random() < 0.7) else 0
        if cfg['have_security_ext']:
            r.scr.ns = ns
            if ns == 0 and rng.random() < 0.4:
                r.nsacr.value |= 1 << 19          # NSACR.RFR = 1 restricts FIQ mode in NON-secure state only: no effect here
                mon.bump('histories_with_nsacr_rfr_in_secure_state')
        # interrupt / abort routing controls: in Secure state towards Monitor mode, in Non-secure state with the Virtualization
        # Extensions towards Hyp mode; which bank an entry writes depends on them (each bit drawn on its own: FMO != IMO ...)
        if cfg['have_security_ext'] and ns == 0 and rng.random() < 0.5:
            r.scr.irq, r.scr.fiq, r.scr.ea = rng.randrange(2), rng.randrange(2), rng.randrange(2)
        if cfg['have_virt_ext'] and ns == 1 and rng.random() < 0.7:
            r.hcr.imo, r.hcr.fmo, r.hcr.amo = rng.randrange(2), rng.randrange(2), rng.randrange(2)
            r.hcr.tge = 1 if rng.random() < 0.3 else 0
        modes = ctx.legal_modes(ns)
        # cells that exist / are accessible in this configuration and security state
        audit_modes = [m for m in ('usr', 'fiq', 'irq', 'svc', 'abt', 'und', 'sys') if m in modes]
        if 'mon' in modes:
            audit_modes.append('mon')
        if 'hyp' in modes:
            audit_modes.append('hyp')
        # registers of a mode this configuration does not implement, named explicitly (what SRS #mon / a debugger does; the
        # access itself is UNPREDICTABLE and its result ignored): it must not disturb the instances of other configurations
        # that follow in this process
        for m_ in ('mon', 'hyp'):
            if m_ not in modes and rng.random() < 0.5:
                for n_ in (13, 14):
                    try:
                        r.get_rmode(n_, MODE_BITS[m_])
                    except Exception:
                        pass
                mon.bump('reads_naming_an_unimplemented_mode')
        cur = rng.choice(modes)
        r.cpsr.value = MODE_BITS[cur] | (rng.getrandbits(1) << 5 if False else 0)
        model = {}
        for m in audit_modes:
            for n in range(15):
                c = cell(n, m)
                if c not in model:
                    v = fresh_value()
                    model[c] = v
                    r.set_rmode(n, MODE_BITS[m], v)
        spsr_modes = [m for m in audit_modes if m not in ('usr', 'sys')]
        for m in spsr_modes:
            v = fresh_value()
            model[('SPSR', m)] = v
            setattr(r, 'spsr_' + m, v)
        ops = []

        def audit(what, skip=()):
            for m in audit_modes:
                for n in range(15):
                    c = cell(n, m)
                    if c in skip:
                        continue
                    got = r.get_rmode(n, MODE_BITS[m])
                    if got != model[c]:
                        return 'after %s: R%d in mode %s reads %#x, model cell %s holds %#x' % (what, n, m, got, c, model[c]), c
            for m in spsr_modes:
                if ('SPSR', m) in skip:
                    continue
                got = getattr(r, 'spsr_' + m)
                if got != model[('SPSR', m)]:
                    return 'after %s: SPSR_%s is %#x, model %#x' % (what, m, got, model[('SPSR', m)]), ('SPSR', m)
            return None

        for step in range(150):
            k = rng.random()
            mon.res['evaluations'] += 1
            skip = ()
            if k < 0.22:
                n = rng.randrange(15)
                v = fresh_value()
                r.set(n, v)
                model[cell(n, cur)] = v
                what = 'set(R%d) in %s' % (n, cur)
                mon.res['nontrivial'].add('set|%d|%s' % (n, cur))
            elif k < 0.40:
                n = rng.randrange(15)
                got = r.get(n)
                what = 'get(R%d) in %s' % (n, cur)
                if got != model[cell(n, cur)]:
                    mon.report('C10|banking|get|%s' % cell(n, cur)[0][:2],
                               '%s returned %#x, model %#x; history %s' % (what, got, model[cell(n, cur)], ops[-6:]),
                               dict(ctx=list(ctxkey), ops=ops + [what]))
                    break
            elif k < 0.55:
                n = rng.randrange(15)
                m = rng.choice(audit_modes)
                v = fresh_value()
                r.set_rmode(n, MODE_BITS[m], v)
                model[cell(n, m)] = v
                what = 'set_rmode(R%d,%s) from %s' % (n, m, cur)
                mon.res['nontrivial'].add('set_rmode|%d|%s|%s' % (n, cur, m))
            elif k < 0.65:
                if cur in spsr_modes:
                    v = fresh_value()
                    r.set_spsr(v)
                    model[('SPSR', cur)] = v
                    what = 'set_spsr in %s' % cur
                    mon.res['nontrivial'].add('set_spsr|%s' % cur)
                else:
                    continue
            elif k < 0.72:
                if cur in spsr_modes:
                    got = r.get_spsr()
                    what = 'get_spsr in %s' % cur
                    if got != model[('SPSR', cur)]:
                        mon.report('C10|banking|get_spsr', '%s returned %#x, model %#x' % (what, got, model[('SPSR', cur)]),
                                   dict(ctx=list(ctxkey), ops=ops + [what]))
                        break
                else:
                    continue
            elif k < 0.90:
                new = rng.choice(modes)
                r.cpsr.m = MODE_BITS[new]
                what = 'mode %s->%s' % (cur, new)
                mon.res['nontrivial'].add('switch|%s|%s' % (cur, new))
                mon.bump('mode_switches')
                cur = new
            else:
                kind = rng.choice(['svc', 'undef', 'irq', 'fiq', 'dabort'])
                M.activate(cpu)
                r.branch_to(0x10000)
                from vf import observe as _obs
                from vf.ref.model import RefCPU, RefAbort
                refc = RefCPU(_obs.snapshot(cpu, mem=False), cfg)
                {'svc': refc.take_svc, 'undef': refc.take_undef, 'irq': refc.take_irq, 'fiq': refc.take_fiq,
                 'dabort': lambda: refc.take_data_abort(RefAbort('permission', 0, False))}[kind]()
                if kind == 'svc':
                    r.take_svc_exception()
                elif kind == 'undef':
                    r.take_undef_instr_exception()
                elif kind == 'irq':
                    r.take_physical_irq_exception()
                elif kind == 'fiq':
                    r.take_physical_fiq_exception()
                else:
                    from armulator.armv6.arm_exceptions import DataAbortException
                    from armulator.armv6.enums import DAbort
                    r.take_data_abort_exception(DataAbortException(DAbort.PERMISSION, False))
                newbits = r.cpsr.m
                new = [m for m, b in MODE_BITS.items() if b == newbits]
                what = 'exception %s from %s' % (kind, cur)
                if not new or new[0] not in modes:
                    mon.report('C10|banking|exception-entered-illegal-mode', '%s entered mode %s' % (what, bin(newbits)),
                               dict(ctx=list(ctxkey), ops=ops + [what]))
                    break
                new = new[0]
                if newbits != refc.mode:
                    # the entry went to another mode than the routing rules select: it has written the SPSR and LR of a bank
                    # that must stay untouched (and left the right one stale)
                    mon.report('C10|banking|exception-wrote-wrong-bank|%s' % kind,
                               '%s (SCR %#x HCR %#x) entered %s, the routing rules select %s' % (
                                   what, r.scr.value, r.hcr.value, new, M.MODE_NAMES.get(refc.mode, bin(refc.mode))),
                               dict(ctx=list(ctxkey), ops=ops + [what]))
                    break
                mon.bump('exception_entries')
                mon.res['nontrivial'].add('exc|%s|%s|%s' % (kind, cur, new))
                # entry writes SPSR_<new> and LR_<new> (ELR_hyp instead of LR for Hyp): adopt them, judge the rest
                model[('SPSR', new)] = getattr(r, 'spsr_' + new)
                if new != 'hyp':
                    model[cell(14, new)] = r.get_rmode(14, MODE_BITS[new])
                cur = new
            ops.append(what)
            bad = audit(what)
            if bad is not None:
                mon.report('C10|banking|foreign-cell-changed|%s|%s' % (what.split('(')[0].split(' ')[0], bad[1][0][:2]),
                           bad[0] + '; history tail %s' % ops[-6:], dict(ctx=list(ctxkey), ops=ops))
                break
            mon.bump('audits')
        if h == 0 and spec['shard'] == 0:
            mon.res['samples'].append(dict(ctx=list(ctxkey), ns=ns, history=ops[:12]))


BANK_FAMILY = ('ldm_user', 'stm_user', 'srs', 'rfe', 'ldm_eret', 'cps', 'msr_sys', 'subs_pc_lr', 'subs_pc_lr_thumb', 'eret')


def run_shard(spec):
    from vf import trace_decode as td
    if spec['kind'] == 'rows':
        # (c) instructions that name another bank or switch banks (user-bank LDM/STM, SRS/RFE, CPS, MSR, exception
        # returns) in lock-step with the reference, FIQ and Monitor/Hyp modes included: which copy was written?
        from vf.props import _lock as L

        def regs(rng):
            from vf import machine as M
            v = [M.rand32(rng) for _ in range(15)]
            for n in range(15):
                if rng.random() < 0.5:
                    v[n] = rng.choice([0x100, 0x1000, 0x2000, 0x7F00, 0x10800, 0x11000]) + 4 * rng.randrange(-8, 8)
            return v
        return L.run_rows(ID, spec, BANK_FAMILY, ctxs=[('v6-pmsa-sec', 'off'), ('v7-vmsa-sec', 'off'), ('v7-vmsa-virt', 'off'),
                                                       ('v7-pmsa-r', 'off'), ('v5-pmsa', 'off')], regs_fn=regs)
    mon = Mon(spec)
    rng = mon.rng
    kind = spec['kind']
    if kind == 'paths':
        cubes, info = td.all_paths(random.Random(spec['seed']))
        for name in ('arm', 't32'):
            if not (info[name]['complete'] and info[name]['partition_ok']):
                mon.bump('path_enumeration_incomplete')
            for pi, (m, v, ds, out, wit) in enumerate(cubes[name]):
                if pi % spec['of'] != spec['shard'] or out.startswith('#'):
                    continue
                mon.bump('paths_visited_' + name)
                for j in range(spec['per_path']):
                    w = wit if j == 0 else td.sample(m, v, ds, 32, rng)
                    if w is not None:
                        mon.one(name, w, 'p%d' % pi)
    elif kind == 't16':
        for w in range(spec['lo'], spec['hi']):
            if (w >> 11) in (0b11101, 0b11110, 0b11111):
                continue
            for _ in range(spec['reps']):
                mon.one('t16', w, 'w%03x' % (w >> 4))
        mon.bump('t16_words_covered', spec['hi'] - spec['lo'])
    else:
        bank_histories(mon, spec)
    mon.res['violations'] = list(mon.viol.values())
    return mon.res


def replay(data):
    from vf import observe
    rp = data['replay']
    out = dict(evaluations=1, violations=[])
    if 'word' not in rp:
        return out
    mon = Mon(dict(kind='replay', seed=0, shard=0))
    ctx = mon.ctx(tuple(rp['ctx']))
    regs = [int(x, 16) for x in rp['regs']]
    mon.scen.prepare(ctx, random.Random(1), rp['kind'], int(rp['word'], 16), mode=rp['mode'], ns=rp['ns'], regs=regs,
                     code=int(rp.get('code', '0x10000'), 16))
    ctx.cpu.registers.cpsr.value = int(rp['cpsr'], 16)
    mon.scen.step(ctx.cpu)
    post = observe.snapshot(ctx.cpu, mem=False)
    bad = [(n, v) for n, v in observe.all_int_locations(post) if not in_range(v)]
    if bad:
        out['violations'].append(dict(key=data['key'], desc=str(bad[:3])[:200]))
    return out


def finish(agg, tier, seed):
    c = agg['counters']
    inc = []
    if c.get('t16_words_covered', 0) != 65536:
        inc.append('Thumb-16 words not all covered')
    if c.get('path_enumeration_incomplete', 0):
        inc.append('decoder path enumeration incomplete')
    if c.get('audits', 0) < 10000:
        inc.append('too few banking audits (%d)' % c.get('audits', 0))
    if c.get('exception_entries', 0) < 500 or c.get('mode_switches', 0) < 2000:
        inc.append('too few mode switches / exception entries')
    if c.get('ref_ok', 0) < 1500:
        inc.append('too few bank-naming instructions judged in lock-step (%d)' % c.get('ref_ok', 0))
    if c.get('steps_code_at_address_space_edge', 0) < 5000:
        inc.append('too few steps with code at the edge of the address space')
    return dict(inconclusive=inc, coverage=dict(explanation='held on the sampled steps and histories; nothing exhaustive '
                                                            'beyond "every Thumb-16 word stepped at least once"'))
