"""C15 — VMSA translation.  (1) decision level: translate_address() over generated short-descriptor page tables
written into RAM (sections, supersections, large and small pages, invalid entries, TTBR0/TTBR1 split by
TTBCR.N, PD0/PD1, DACR, AP/APX with and without AFE, TEX remap, descriptor endianness, FCSE) and over generated
long-descriptor stage-1 tables (PL1&0 regime: T0SZ/T1SZ split, EPD0/EPD1, 1-3 levels, blocks, pages, hierarchical
APTable/XNTable/PXNTable/NSTable, access flag, MAIR; Hyp regime: HTCR/HTTBR/HMAIR) against an independently written
walker (vf/ref/mem.py); (2) instruction level: loads/stores in lock-step with the MMU on."""
import random
from vf.props import _lock as L
from vf.common import rng_for

ID = 'C15'
LEVEL = 'exploration'
SHARD_TIMEOUT = L.SHARD_TIMEOUT
FAMILY = ('ls', 'ldm', 'stm', 'push', 'pop')
RULE = ('decision level: case = (page-table set: TTBCR.N 0..7, PD0/PD1, TTBR0/TTBR1 tables, per tested virtual address a '
        'descriptor chain of type {L1 fault, section, supersection, page table -> {L2 fault, large page, small page}} with '
        'random domain, AP[2:0], TEX/C/B, nG, S; DACR per domain in {no access, client, manager}; SCTLR.{AFE, TRE, EE}, '
        'FCSE PID) x (address inside / at both edges of the mapped block, on both sides of the TTBR split, random) x '
        'read/write x privileged/unprivileged, plus MMU off; outcome (physical address + memory type, or fault kind) and '
        'DFSR/DFAR compared with the reference walker. instruction level: load/store rows in lock-step under the fixed '
        'page tables of the harness. long-descriptor sets (configuration with LPAE): T0SZ/T1SZ 0..7, EPD0/1, table chains of '
        '1-3 levels with block / page / table / invalid / reserved descriptors, hierarchical attribute bits, AF, AP[2:1], '
        'MAIR attribute bytes, an ASID in TTBRn<55:48>, Secure / Non-secure PL1&0 and Hyp-mode regimes. non-trivial = a walk reached a valid descriptor or faulted; distinct = (descriptor '
        'type, level, outcome, domain setting, privilege, direction)')
ASSUMPTIONS = ['vf/ref/mem.py walk_sd / walk_ld_s1 / translate_v transcribe B3.19 (short- and long-descriptor stage 1); stage-2 '
               'translation (HCR.VM = 1) is not judged (RefNotModelled)',
               'MAIR encodings that are IMPLEMENTATION DEFINED or need the transient hint are not judged',
               'TEX/C/B encodings the manual leaves IMPLEMENTATION DEFINED are not judged']
MEM = [(0x0, 0x20000)]
T0, T1, L2BASE = 0x8000, 0xC000, 0x10000


class VCtx:
    def __init__(self, cfgname):
        from vf import scen, machine as M, observe
        self.cfgname = cfgname
        self.cfg = M.make_config(mems=MEM, **scen.CONFIGS[cfgname])
        self.cpu = M.build(self.cfg, thumb=False)
        M.set_memories(self.cpu, MEM, None)
        self.base = observe.snapshot(self.cpu)

    def fresh(self):
        from vf import machine as M, observe
        M.activate(self.cpu)
        observe.restore(self.cpu, self.base)
        return self.cpu


def plan(tier, seed):
    q = tier == 'quick'
    specs = [dict(kind='decision', seed=seed, shard=i, sets=70 if q else 3000, addrs=60 if q else 120) for i in range(8 if q else 32)]
    specs += L.plan_rows(ID, FAMILY, tier, seed, 90, 4000, 8, 32)
    return specs


def run_shard(spec):
    if spec['kind'] == 'decision':
        return decision(spec)

    def after(ctx, rng, desc):
        from vf import scen
        r = ctx.cpu.registers
        if ctx.cfg['arch_version'] >= 7:
            r.sctlr.u = 1
        r.dacr.value = rng.choice([0b001101, 0b001101, 0b111111, 0b000001])
        if rng.random() < 0.15:
            r.fcseidr.value = rng.choice([1, 2, 0x40]) << 25      # FCSE: VAs below 32 MB are relocated before the walk
            desc['fcse_pid'] = r.fcseidr.value >> 25
        if ctx.prot == 'mmu-ld':
            if rng.random() < 0.5:
                r.ttbr0_64 |= rng.choice([0x2A, 0xFF, 0x01]) << 48          # an ASID in TTBR0<55:48>: not part of the table address
                desc['asid'] = r.ttbr0_64 >> 48
            # windows of the long-descriptor layout (vf/scen.py _program_mmu_ld)
            for n in range(13):
                if rng.random() < 0.7:
                    r.set(n, rng.choice([0x100, 0x1000, 0x2000, 0x3000, 0x8000, 0x9000, 0x12000, 0x12FFC, 0x13000, 0x100100, 0x101000,
                                         0x102000, 0x200100, 0x201000, 0x3FFFFC, 0x400100, 0x600100, 0x800100, 0xA00000, 0xFFFFF100,
                                         0x40000000, 0xFFDFF000, 0x1FFC, 0xFFC]) + rng.choice([0, 0, 4, -4, 2, 1]))
            desc['ld'] = True
            return
        # the TTBR0 / TTBR1 split moved (TTBCR.N) with both base registers on the same first-level table: every address
        # translates exactly as before, through whichever register the split selects; TEX remap off/on does not matter to
        # the outcome of an access either (it changes memory attributes only)
        if rng.random() < 0.4:
            r.ttbcr.value = rng.choice([1, 2, 3, 7])
            r.ttbr1 = scen.L1_TABLE
            if hasattr(r, 'ttbr1_64'):
                r.ttbr1_64 = scen.L1_TABLE
            desc['ttbcr_n'] = r.ttbcr.value
        # addresses inside the virtual windows the harness maps (vf/scen.py _program_mmu)
        for n in range(13):
            if rng.random() < 0.7:
                r.set(n, rng.choice([0x100, 0x1000, 0x100100, 0x101000, 0x200100, 0x201100, 0x202100, 0x203000, 0x210100,
                                     0x300100, 0x400100, 0xFFFFF100, 0x500000, 0x2000FC, 0x200FFC, 0x201FFC, 0x2FFFFC]) +
                      rng.choice([0, 0, 4, -4, 2]))

    def keyfn(key, info, diffs):
        return key + ('|abort-' + info['abort'] if info.get('abort') else '')
    return L.run_rows(ID, spec, FAMILY, ctxs=[('v7-vmsa-sec', 'mmu'), ('v6-vmsa', 'mmu'), ('v7-vmsa-virt', 'mmu-ld')], after=after, keyfn=keyfn)


MAIR_BYTES = [0x00, 0x04, 0x44, 0xFF, 0xBB, 0x4F, 0xAA, 0xF4, 0x88, 0xCC]


def build_ld(cpu, r, rng, regime, ee):
    """long-descriptor stage-1 tables for the PL1&0 regime (TTBCR.EAE = 1, TTBR0/TTBR1 split by T0SZ/T1SZ) or the
    Hyp-mode regime (HTCR/HTTBR).  Returns (tested addresses, descriptions, summary tag)."""
    from vf import machine as M

    def w64(a, v):
        M.poke(cpu, a, v.to_bytes(8, 'big' if ee else 'little'))
    t0 = rng.choice([0, 0, 1, 2, 3, 7, rng.randrange(8)])
    t1 = rng.choice([0, 0, 1, 2, 3, 7, rng.randrange(8)])
    epd0 = 1 if rng.random() < 0.08 else 0
    epd1 = 1 if rng.random() < 0.08 else 0

    def region(tsz, window):
        level = 1 if tsz < 2 else 2
        lb = 9 * level - tsz - 4
        slots = max(1, 0x1000 >> lb)
        base = window + rng.randrange(slots) * (1 << lb)
        return level, lb, base
    lvl0, lb0, base0 = region(t0, T0)
    lvl1, lb1, base1 = region(t1, T1)
    if regime == 'hyp':
        r.htcr.value = t0 | (rng.getrandbits(6) << 8) | (1 << 31)
        r.httbr = base0 | rng.getrandbits(3)
        r.hsctlr.m = 1
        r.hsctlr.ee = ee
        r.hmair0 = sum(rng.choice(MAIR_BYTES) << (8 * i) for i in range(4))
        r.hmair1 = sum(rng.choice(MAIR_BYTES) << (8 * i) for i in range(4))
        t1 = 0
    else:
        r.ttbcr.value = (1 << 31) | t0 | (epd0 << 7) | (rng.getrandbits(6) << 8) | (t1 << 16) | (epd1 << 23) | \
            (rng.getrandbits(6) << 24) | (rng.getrandbits(1) << 22)
        r.ttbr0 = r.ttbr0_64 = base0 | rng.getrandbits(3)
        r.ttbr1 = r.ttbr1_64 = base1 | rng.getrandbits(3)
        if rng.random() < 0.5:
            # the 64-bit base registers carry more than the base: the ASID in <55:48> (and reserved bits above the 40-bit
            # address) - not part of the table address
            r.ttbr0_64 |= rng.choice([0x2A, 0xFF, 0x01, rng.getrandbits(8)]) << 48
            r.ttbr1_64 |= rng.choice([0x2A, 0xFF, 0x01, rng.getrandbits(8)]) << 48
        r.mair0 = sum(rng.choice(MAIR_BYTES) << (8 * i) for i in range(4))
        r.mair1 = sum(rng.choice(MAIR_BYTES) << (8 * i) for i in range(4))
    tested, descs = [], []
    nxt = [L2BASE]

    def alloc():
        a = nxt[0]
        nxt[0] += 0x1000
        if nxt[0] > 0x1F000:
            nxt[0] = L2BASE
        return a
    split0 = (1 << (32 - t0)) if t0 else (1 << 32)
    split1 = ((1 << 32) - (1 << (32 - t1))) if t1 else 0
    for k in range(rng.randrange(2, 9)):
        ia = rng.choice([rng.getrandbits(32), (split0 - rng.randrange(1, 0x200000)) & 0xFFFFFFFF, (split0 + rng.randrange(0x200000)) & 0xFFFFFFFF,
                         (split1 + rng.randrange(0x200000)) & 0xFFFFFFFF, (split1 - rng.randrange(1, 0x200000)) & 0xFFFFFFFF,
                         rng.randrange(0x02000000), 0xFFE00000 | rng.getrandbits(21)])
        in0 = t0 == 0 or (ia >> (32 - t0)) == 0
        in1 = (t1 > 0 and (ia >> (32 - t1)) == (1 << t1) - 1) or (t1 == 0 and not in0 and regime != 'hyp')
        if in1:
            level, base, start = lvl1, base1, 31 - t1
        elif in0:
            level, base, start = lvl0, base0, 31 - t0
        else:
            tested.append(ia)
            descs.append((hex(ia), 'outside both regions'))
            continue
        chain = []
        first = True
        while True:
            lo = 39 - 9 * level
            hi = start if first else 47 - 9 * level
            first = False
            da = base | (((ia >> lo) & ((1 << (hi - lo + 1)) - 1)) << 3)
            if not (0 <= da <= 0x20000 - 8):
                chain.append('table outside RAM')
                break
            upper = (rng.getrandbits(1) << 54) | (rng.getrandbits(1) << 53) | (rng.getrandbits(1) << 52)
            if rng.random() < 0.15:
                upper |= rng.getrandbits(4) << 55
            lower = (rng.getrandbits(1) << 11) | ((0 if rng.random() < 0.12 else 1) << 10) | (rng.getrandbits(2) << 8) | \
                (rng.getrandbits(2) << 6) | (rng.getrandbits(1) << 5) | (rng.randrange(8) << 2)
            if regime == 'hyp' and rng.random() < 0.85:
                upper &= ~(1 << 53)
                lower = (lower & ~(1 << 11)) | (1 << 6)
            oa = rng.choice([rng.getrandbits(32), rng.getrandbits(40), rng.randrange(0x20000)]) & ~0xFFF
            if level == 3:
                kind = rng.choice(['fault', 'reserved', 'page', 'page', 'page'])
                if kind == 'fault':
                    w64(da, rng.getrandbits(63) << 1)
                elif kind == 'reserved':
                    w64(da, upper | oa | lower | 0b01)
                else:
                    w64(da, upper | oa | lower | 0b11)
                chain.append('L3 ' + kind)
                break
            kind = rng.choice(['fault', 'block', 'block', 'table', 'table', 'table'])
            if kind == 'fault':
                w64(da, rng.getrandbits(63) << 1)
                chain.append('L%d fault' % level)
                break
            if kind == 'block':
                w64(da, upper | oa | lower | 0b01)
                chain.append('L%d block ap%d af%d' % (level, (lower >> 6) & 3, (lower >> 10) & 1))
                break
            nt = alloc()
            tbl = sum((1 if rng.random() < 0.12 else 0) << b for b in (59, 60, 61, 62, 63))
            if regime == 'hyp' and rng.random() < 0.85:
                tbl &= ~((1 << 59) | (1 << 61))
            hi_pa = (rng.getrandbits(8) << 32) if rng.random() < 0.06 else 0     # next table beyond the RAM: reads as zeros
            w64(da, tbl | hi_pa | nt | (rng.getrandbits(10) << 2 if rng.random() < 0.3 else 0) | 0b11)
            chain.append('L%d table%s%s' % (level, ' hier%#x' % (tbl >> 59) if tbl else '', ' (unmapped %#x)' % (hi_pa | nt) if hi_pa else ''))
            base = nt            # (the chain below is written even when the walk cannot reach it)
            level += 1
        tested.append(ia)
        descs.append((hex(ia), ' -> '.join(chain)))
    return tested, descs, 'T0SZ%d/T1SZ%d' % (t0, t1)


def decision(spec, pid=ID, host_only=False):
    """host_only (used by C18): the same generated table sets and addresses, judged for one thing only - whether
    translate_address() ends in anything but a physical address, a Data Abort or the documented not-implemented error"""
    from vf import lockstep, machine as M, observe
    from vf.ref.model import RefCPU, RefAbort, RefUnpredictable, RefNotModelled
    from vf.ref import mem as RM
    from vf.ref import step as RS
    from armulator.armv6.arm_exceptions import DataAbortException
    rng = rng_for(pid, 'decision', spec['seed'], spec['shard'])
    ls = lockstep.LockStep(pid, rng)
    res = ls.res
    res['sets']['outcomes'] = set()
    vctx = {}
    for sidx in range(spec['sets']):
        cfgname = rng.choice(['v7-vmsa-sec', 'v6-vmsa', 'v7-vmsa-virt'])
        if cfgname not in vctx:
            vctx[cfgname] = VCtx(cfgname)
        ctx = vctx[cfgname]
        cpu = ctx.fresh()
        r = cpu.registers
        ee = 1 if rng.random() < 0.25 else 0

        def w32(a, v):
            M.poke(cpu, a, v.to_bytes(4, 'big' if ee else 'little'))
        n = rng.choice([0, 0, 1, 2, 3, 7, rng.randrange(8)])
        mmu_on = rng.random() < 0.92
        fmt = 'sd'
        if ctx.cfg['have_lpae'] and rng.random() < 0.6:
            fmt = rng.choice(['ld', 'ld', 'ld-ns', 'ld-hyp'])
        r.sctlr.m = 1 if mmu_on else 0
        r.sctlr.ee = ee
        r.sctlr.afe = 1 if rng.random() < 0.3 else 0
        r.sctlr.tre = 1 if rng.random() < 0.3 else 0
        r.sctlr.ha = 0
        r.prrr.value = rng.getrandbits(32)
        r.nmrr.value = rng.getrandbits(32)
        r.ttbcr.value = n | ((1 if rng.random() < 0.1 else 0) << 4) | ((1 if rng.random() < 0.1 else 0) << 5)
        # the TTBR0 table is only (14-N)-bit aligned: place it anywhere in its 16KB window
        t0base = T0 + (rng.randrange(1 << n) * (1 << (14 - n)) if n else 0)
        r.ttbr0 = r.ttbr0_64 = t0base | rng.getrandbits(3)
        r.ttbr1 = r.ttbr1_64 = T1 | rng.getrandbits(3)
        r.dacr.value = sum(rng.choice([0, 1, 1, 3]) << (2 * d) for d in range(16))
        r.fcseidr.value = (rng.choice([0, 0, 0, 1, 0x40]) << 25)
        if ctx.cfg['have_security_ext']:
            r.scr.ns = 0
        if fmt != 'sd':
            r.scr.ns = 0 if fmt == 'ld' else 1
            r.hcr.value = 0
            if fmt == 'ld-hyp':
                r.fcseidr.value = 0
            tested, descs, tag = build_ld(cpu, r, rng, 'hyp' if fmt == 'ld-hyp' else 'pl1', ee)
            if fmt == 'ld-hyp':
                mmu_on = True
        # a handful of mapped virtual addresses (as MVAs), on both sides of the TTBR split
        split = (1 << (32 - n)) if n else (1 << 32)
        if fmt == 'sd':
            tested = []
            descs = []
        l2next = L2BASE
        for k in range(rng.randrange(2, 9) if fmt == 'sd' else 0):
            mva = rng.choice([rng.getrandbits(32), split - rng.randrange(1, 0x100000), (split + rng.randrange(0x100000)) & 0xFFFFFFFF,
                              rng.randrange(0x02000000), 0xFFF00000 | rng.getrandbits(20)])
            use0 = (n == 0) or (mva >> (32 - n)) == 0
            if use0:
                idx = (mva >> 20) & ((1 << (12 - n)) - 1)
                l1a = t0base + 4 * idx
            else:
                l1a = T1 + 4 * ((mva >> 20) & 0xFFF)
            if not (0 <= l1a < 0x20000 - 4):
                continue
            kind = rng.choice(['fault', 'section', 'section', 'super', 'table', 'table', 'table'])
            dom = rng.randrange(16)
            ap = rng.randrange(8)
            tex = rng.choice([0, 0, 1, 2, 4, 5, rng.randrange(8)])
            cb = rng.randrange(4)
            pa_hi = rng.choice([0x000, 0x001, 0x123, 0xFFF, rng.getrandbits(12)])
            if kind == 'fault':
                w32(l1a, rng.getrandbits(30) << 2)
            elif kind == 'section':
                w32(l1a, (pa_hi << 20) | (rng.getrandbits(1) << 17) | (rng.getrandbits(1) << 16) | ((ap >> 2) << 15) | (tex << 12) |
                    ((ap & 3) << 10) | (rng.getrandbits(1) << 9) | (dom << 5) | (rng.getrandbits(1) << 4) | (cb << 2) | 0b10 | rng.getrandbits(1))
            elif kind == 'super':
                w32(l1a, ((pa_hi >> 4) << 24) | (rng.getrandbits(4) << 20) | (1 << 18) | (rng.getrandbits(1) << 17) | ((ap >> 2) << 15) |
                    (tex << 12) | ((ap & 3) << 10) | (rng.getrandbits(1) << 9) | (rng.getrandbits(4) << 5) | (cb << 2) | 0b10)
            else:
                l2t = l2next
                l2next += 0x400
                if l2next > 0x1F000:
                    l2next = L2BASE
                w32(l1a, l2t | (rng.getrandbits(1) << 9) | (dom << 5) | (rng.getrandbits(2) << 2) | 0b01)        # bit 9: IMPLEMENTATION DEFINED
                l2a = l2t + 4 * ((mva >> 12) & 0xFF)
                k2 = rng.choice(['fault', 'small', 'small', 'large'])
                kind = 'table/' + k2
                if k2 == 'fault':
                    w32(l2a, rng.getrandbits(30) << 2)
                elif k2 == 'small':
                    w32(l2a, (rng.getrandbits(20) << 12) | (rng.getrandbits(1) << 11) | (rng.getrandbits(1) << 10) | ((ap >> 2) << 9) |
                        (tex << 6) | ((ap & 3) << 4) | (cb << 2) | 0b10 | rng.getrandbits(1))
                else:
                    w32(l2a, (rng.getrandbits(16) << 16) | (rng.getrandbits(1) << 15) | (tex << 12) | (rng.getrandbits(1) << 11) |
                        (rng.getrandbits(1) << 10) | ((ap >> 2) << 9) | ((ap & 3) << 4) | (cb << 2) | 0b01)
            tested.append(mva)
            descs.append((hex(mva), kind, 'dom%d' % dom, 'ap%d' % ap))
        if not tested:
            continue
        base_snap = observe.snapshot(cpu)
        for a in range(spec['addrs']):
            mva = rng.choice(tested)
            mva = (mva + rng.choice([0, 0, 1, -1, 0xFFF, 0x1000, -0x1000, 0xFFFF, 0x100000, -0x100000, 4, 0x200000, -0x200000,
                                     0x40000000, 0x1FFFFF])) & 0xFFFFFFFF if rng.random() < 0.6 else mva
            if rng.random() < 0.1:
                mva = rng.getrandbits(32)
            # the VA that maps to this MVA under FCSE: identical unless va<31:25> == 0
            va = mva
            ispriv, iswrite = rng.randrange(2), rng.randrange(2)
            aligned = rng.random() < 0.85
            observe.restore(cpu, base_snap)
            r.cpsr.m = 0b10011 if ispriv else 0b10000
            if fmt == 'ld-hyp':
                ispriv = 1
                r.cpsr.m = 0b11010
            M.activate(cpu)
            pre = observe.snapshot(cpu)
            ref = RefCPU(pre, ctx.cfg)
            try:
                exp = ('ok', RM.translate_v(ref, va, ispriv, iswrite, 4, aligned))
            except RefAbort as ab:
                ref.abort_bookkeeping(ab)
                exp = ('abort', ab.kind, ab.info.get('level'))
            except RefUnpredictable:
                ls.bump('decisions_unpredictable')
                continue
            except RefNotModelled:
                ls.bump('decisions_not_modelled')
                continue
            try:
                d = cpu.translate_address(va, bool(ispriv), bool(iswrite), 4, aligned)
                got = ('ok', d.paddress.physicaladdress)
            except DataAbortException as ex:
                got = ('abort', {'PERMISSION': 'permission', 'TRANSLATION': 'translation', 'DOMAIN': 'domain', 'ACCESS_FLAG': 'accessflag',
                                 'ALIGNMENT': 'alignment'}.get(ex.abort_type.name, ex.abort_type.name), None)
            except NotImplementedError:
                ls.bump('emu_notimpl')
                continue
            except Exception as ex:
                got = ('host', type(ex).__name__, None)
            post = observe.snapshot(cpu)
            res['evaluations'] += 1
            ls.bump('decisions_' + exp[0])
            oc = '%s|%s|%s|%s|%s' % (exp[0] + (':' + exp[1] + str(exp[2]) if exp[0] == 'abort' else ''), 'priv' if ispriv else 'user',
                                     'w' if iswrite else 'r', 'mmu' if mmu_on else 'off', fmt)
            ls.bump('decisions_%s_%s' % (fmt.split('-')[0], exp[0]))
            res['sets']['outcomes'].add(oc)
            res['nontrivial'].add(oc + '|n%d|afe%d' % (n, r.sctlr.afe))
            why = None
            if host_only:
                ls.bump('walks_' + got[0])
                if got[0] == 'host':
                    ls.report('%s|host-error-in-translation|%s|%s' % (pid, got[1], fmt),
                              'fmt %s va %#x N=%d TTBCR=%#x DACR=%#x SCTLR.afe/tre/ee=%d%d%d priv=%d write=%d descs %s: %s escaped translate_address()' % (
                                  fmt, va, n, r.ttbcr.value, r.dacr.value, r.sctlr.afe, r.sctlr.tre, ee, ispriv, iswrite, descs, got[1]),
                              dict(va=va, n=n))
                continue
            if got[:2] != exp[:2]:
                why = 'outcome %s, reference %s' % (got[:2], exp)
            else:
                diffs = RS.compare(ref, post)
                if diffs:
                    why = 'fault syndrome: %s' % [(l, hex(e) if isinstance(e, int) else e, hex(g) if isinstance(g, int) else g) for l, e, g in diffs[:3]]
            if why:
                key = 'C15|decision-%s|%s|got-%s' % (fmt, exp[0] + (':' + exp[1] + '-L' + str(exp[2]) if exp[0] == 'abort' else ''),
                                                   got[0] + (':' + str(got[1]) if got[0] != 'ok' else ''))
                ls.report(key, 'fmt %s va %#x N=%d TTBCR=%#x DACR=%#x SCTLR.afe/tre/ee=%d%d%d priv=%d write=%d descs %s: %s' % (
                    fmt, va, n, r.ttbcr.value, r.dacr.value, r.sctlr.afe, r.sctlr.tre, ee, ispriv, iswrite, descs, why),
                    dict(va=va, n=n))
        if sidx == 0 and spec['shard'] == 0:
            res['samples'].append(dict(config=cfgname, format=fmt, N=n, descriptors=descs, mmu_on=mmu_on))
    res['violations'] = list(ls.viol.values())
    return res


def replay(data):
    if (data.get('replay') or {}).get('snapshot'):
        return L.replay_rows(ID, data)          # clusters of the lock-step rows carry their complete pre-state
    return dict(evaluations=0, violations=[], not_replayable='this cluster is described in full by the file; it has no executable replay')


def finish(agg, tier, seed):
    c = agg['counters']
    inc = L.finish_rows(agg, 500)
    if c.get('decisions_ok', 0) < 1500 or c.get('decisions_abort', 0) < 1500:
        inc.append('too few decisions (%d ok, %d abort)' % (c.get('decisions_ok', 0), c.get('decisions_abort', 0)))
    if c.get('decisions_ld_ok', 0) < 300 or c.get('decisions_ld_abort', 0) < 500:
        inc.append('too few long-descriptor decisions (%d ok, %d abort)' % (c.get('decisions_ld_ok', 0), c.get('decisions_ld_abort', 0)))
    return dict(inconclusive=inc, coverage=dict(
        outcomes_observed=sorted(agg['sets'].get('outcomes', ()))[:80],
        rows_exercised=len(agg['sets'].get('rows', ())),
        explanation='page tables and addresses sampled; nothing enumerated completely'))
