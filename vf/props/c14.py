"""C14 — PMSA protection.  (1) decision level: translate_address() over generated region sets against an
independently written TranslateAddressP (vf/ref/mem.py): allow/deny, fault kind, DFSR/DFAR; (2) instruction
level: every load/store family in lock-step with the MPU on, faults at any position of multi-word transfers."""
import random
from vf.props import _lock as L
from vf.common import rng_for

ID = 'C14'
LEVEL = 'exploration'
SHARD_TIMEOUT = L.SHARD_TIMEOUT
FAMILY = ('ls', 'ldm', 'stm', 'push', 'pop', 'ldrex', 'strex', 'srs', 'rfe', 'tbb')
RULE = ('decision level: case = (region set: up to 12 regions, size 2^5..2^32 incl. sub-8-bit sizes without subregions, '
        'size-aligned bases, all subregion-disable masks, AP 0..7, nested/overlapping) x (address at a region or '
        'subregion boundary -1/0/+1, or random) x read/write x privileged/unprivileged x SCTLR.M x SCTLR.BR; the real '
        'translate_address() outcome (physical address or abort kind, DFSR, DFAR) is compared with the reference. '
        'instruction level: load/store rows stepped in lock-step with the MPU programmed at random (code always '
        'fetchable), addresses drawn around the programmed boundaries, SCTLR.A set in 40% of the cases and SCTLR.U drawn on ARMv6, the VMSA-only registers the register file still holds (FCSEIDR, DACR, TTBCR) at arbitrary values. non-trivial = decision taken by a region with '
        'restricted AP, a subregion, the background rule, or an abort; distinct = (deciding rule, AP, privilege, '
        'direction) / (row, abort kind)')
ASSUMPTIONS = ['vf/ref/mem.py translate_p / check_permission transcribe B5.3 of the ARM ARM (highest-numbered matching '
               'enabled region, subregions for regions >= 256 bytes, AP table, background region)',
               'AP = 100 / 111 and malformed regions are UNPREDICTABLE and not judged']
CTXS = [('v7-pmsa-r', 'off'), ('v6-pmsa-sec', 'off'), ('v6-pmsa', 'off'), ('v6-pmsa-sec-impdef', 'off')]


def gen_regions(rng, code=None, nreg=12):
    """list of (base, rsize, sd, ap, enable); nreg = number of regions the configuration implements"""
    regs = []
    n = rng.randrange(0, nreg)
    for i in range(n):
        rsize = rng.choice([4, 5, 6, 7, 8, 9, 11, 11, 12, 12, 13, 15, 19, 23, 27, 30, 31])
        size = 1 << (rsize + 1)
        if rsize == 31:
            base = 0
        else:
            anchor = rng.choice([0x0, 0x1000, 0x2000, 0x4000, 0x8000, 0x10000, 0x11000, 0xFFFFF000, 0xFFFF0000, 0x20000000,
                                 rng.getrandbits(32)])
            base = anchor & ~(size - 1) & 0xFFFFFFFF
        sd = rng.choice([0, 0, 0x01, 0x80, 0x0F, 0xF0, 0xAA, 0xFF, rng.getrandbits(8)])
        ap = rng.choice([0, 1, 2, 3, 3, 5, 6, rng.randrange(8)])
        regs.append((base, rsize, sd, ap, 1 if rng.random() < 0.85 else 0))
    if code is not None:
        while len(regs) < nreg - 1:
            regs.append((0, 4, 0, 0, 0))
        regs = regs[:nreg - 1] + [(code & ~0x1F, 4, 0, rng.choice([0b011, 0b110, 0b010]), 1)]
    return regs


def program(cpu, regions, m=1, br=0):
    r = cpu.registers
    r.mpuir.dregion = len(r.drsrs)
    for i in range(len(r.drsrs)):
        if i < len(regions):
            base, rsize, sd, ap, en = regions[i]
            r.drbars[i] = base
            r.drsrs[i].value = (sd << 8) | (rsize << 1) | en
            r.dracrs[i].value = ap << 8
        else:
            r.drsrs[i].value = 0
    r.sctlr.m = m
    r.sctlr.br = br


def interesting_addresses(rng, regions):
    out = []
    for base, rsize, sd, ap, en in regions:
        size = 1 << (rsize + 1)
        for edge in (base, base + size):
            out += [(edge - 1) & 0xFFFFFFFF, edge & 0xFFFFFFFF, (edge + 1) & 0xFFFFFFFF, (edge - 4) & 0xFFFFFFFF]
        if rsize >= 7:
            sub = size // 8
            k = rng.randrange(8)
            out += [(base + k * sub - 1) & 0xFFFFFFFF, (base + k * sub) & 0xFFFFFFFF, (base + k * sub + sub - 1) & 0xFFFFFFFF]
    out += [0, 0xFFFFFFFF, 0x7FFFFFFF, 0x80000000, rng.getrandbits(32)]
    return out


def plan(tier, seed):
    q = tier == 'quick'
    specs = [dict(kind='decision', seed=seed, shard=i, sets=30 if q else 1500, addrs=140 if q else 400) for i in range(8 if q else 32)]
    specs += L.plan_rows(ID, FAMILY, tier, seed, 220, 8000, 8, 32)
    return specs


def run_shard(spec):
    if spec['kind'] == 'decision':
        return decision(spec)
    state = {}

    def after(ctx, rng, desc):
        from vf import scen
        regions = gen_regions(rng, code=int(desc['code'], 16) if 'code' in desc else scen.CODE, nreg=len(ctx.cpu.registers.drsrs))
        program(ctx.cpu, regions, m=1, br=rng.randrange(2))
        if ctx.cfg['arch_version'] >= 7:
            ctx.cpu.registers.sctlr.u = 1
        elif rng.random() < 0.5:
            ctx.cpu.registers.sctlr.u = rng.randrange(2)
        if rng.random() < 0.4:
            # strict alignment checking together with the protection unit: a misaligned access is the property's other way
            # to "transfer no data, write back nothing, take a Data Abort whose DFSR/DFAR identify the fault"
            ctx.cpu.registers.sctlr.a = 1
        desc['sctlr_ua'] = (ctx.cpu.registers.sctlr.u, ctx.cpu.registers.sctlr.a)
        if rng.random() < 0.3:
            # registers of the OTHER memory system architecture that the emulator's register file still holds (an MCR reaches
            # them): PMSA has no Fast Context Switch Extension, no domains, no translation tables - their values are nothing
            # the protection unit may depend on
            r_ = ctx.cpu.registers
            r_.fcseidr.value = rng.choice([1, 3, 0x40, 0x7F]) << 25
            r_.dacr.value = rng.getrandbits(32)
            r_.ttbcr.value = rng.choice([0, 1, 7, 0x20])
            desc['vmsa_register_noise'] = dict(fcseidr='%#x' % r_.fcseidr.value, dacr='%#x' % r_.dacr.value, ttbcr='%#x' % r_.ttbcr.value)
        desc['regions'] = [(hex(b), rs, hex(sd), ap, en) for b, rs, sd, ap, en in regions if en]
        # point some registers at the programmed boundaries
        r = ctx.cpu.registers
        addrs = interesting_addresses(rng, [x for x in regions if x[4]][:6])
        for n in range(14):
            if rng.random() < 0.6:
                v = rng.choice(addrs)
                if rng.random() < 0.3:
                    v = (v & ~3) - 4 * rng.randrange(0, 9)      # a boundary INSIDE a multi-word transfer that starts here
                v &= ~rng.choice([0, 0, 3])
                if n == 13:
                    v &= ~3
                r.set(n, v & 0xFFFFFFFF)

    def keyfn(key, info, diffs):
        return key + ('|abort-' + info['abort'] if info.get('abort') else '')
    return L.run_rows(ID, spec, FAMILY, ctxs=CTXS, after=after, keyfn=keyfn)


def decision(spec):
    from vf import lockstep, scen, machine as M, observe
    from vf.ref.model import RefCPU, RefAbort, RefUnpredictable, RefNotModelled
    from vf.ref import mem as RM
    from vf.ref import step as RS
    from armulator.armv6.arm_exceptions import DataAbortException
    rng = rng_for(ID, 'decision', spec['seed'], spec['shard'])
    ls = lockstep.LockStep(ID, rng)
    res = ls.res
    res['sets']['rules'] = set()
    for s in range(spec['sets']):
        ctx = ls.ctx(rng.choice(CTXS))
        regions = gen_regions(rng, nreg=len(ctx.cpu.registers.drsrs))
        m, br = (1, rng.randrange(2)) if rng.random() < 0.9 else (0, rng.randrange(2))
        addrs = interesting_addresses(rng, regions)
        for a in range(spec['addrs']):
            va = rng.choice(addrs) if rng.random() < 0.85 else rng.getrandbits(32)
            ispriv, iswrite = rng.randrange(2), rng.randrange(2)
            mode = rng.choice(['svc', 'sys', 'irq']) if ispriv else 'usr'
            scen.prepare(ctx, rng, 'arm', 0xE1A00000, mode=mode)
            cpu = ctx.cpu
            program(cpu, regions, m=m, br=br)
            if a % 3 == 0:
                cpu.registers.fcseidr.value = rng.choice([1, 3, 0x40, 0x7F]) << 25      # (no FCSE in PMSA: must not matter)
            M.activate(cpu)
            pre = observe.snapshot(cpu, mem=False)
            ref = RefCPU(dict(pre), ctx.cfg)
            try:
                exp = ('ok', RM.translate_p(ref, va, ispriv, iswrite, True))
            except RefAbort as ab:
                ref.abort_bookkeeping(ab)
                exp = ('abort', ab.kind)
            except (RefUnpredictable, RefNotModelled):
                ls.bump('decisions_unpredictable')
                continue
            try:
                d = cpu.translate_address(va, bool(ispriv), bool(iswrite), 4, True)
                got = ('ok', d.paddress.physicaladdress)
            except DataAbortException as ex:
                got = ('abort', {'PERMISSION': 'permission', 'BACKGROUND': 'background', 'ALIGNMENT': 'alignment'}.get(
                    ex.abort_type.name, ex.abort_type.name))
            except Exception as ex:
                got = ('host', type(ex).__name__)
            post = observe.snapshot(cpu, mem=False)
            res['evaluations'] += 1
            # which rule decided (for the evidence): recompute cheaply
            rule = deciding_rule(regions, va, m, br, ispriv)
            res['sets']['rules'].add(rule)
            ls.bump('decisions_' + exp[0])
            if rule not in ('mpu-off',) and not rule.endswith('ap3'):
                res['nontrivial'].add('%s|%s|%s' % (rule, 'priv' if ispriv else 'user', 'w' if iswrite else 'r'))
            why = None
            if got != exp:
                why = 'decision %s, reference %s' % (got, exp)
            else:
                diffs = [d_ for d_ in RS.compare(ref, dict(post, **{k: v for k, v in pre.items() if k.startswith('mem')}))]
                if diffs:
                    why = 'fault syndrome: %s' % [(l, hex(e) if isinstance(e, int) else e, hex(g) if isinstance(g, int) else g) for l, e, g in diffs[:3]]
            if why:
                ls.report('C14|decision|%s|%s|%s' % (rule, 'priv' if ispriv else 'user', 'write' if iswrite else 'read'),
                          'va %#x M=%d BR=%d regions %s: %s' % (va, m, br, [(hex(b), rs, hex(sd), ap) for b, rs, sd, ap, en in regions if en], why),
                          dict(va=va, regions=regions, m=m, br=br, ispriv=ispriv, iswrite=iswrite))
        if s == 0 and spec['shard'] == 0:
            res['samples'].append(dict(regions=[(hex(b), rs, hex(sd), ap, en) for b, rs, sd, ap, en in regions], M=m, BR=br))
    res['violations'] = list(ls.viol.values())
    return res


def deciding_rule(regions, va, m, br, ispriv):
    if not m:
        return 'mpu-off'
    found = None
    for i, (base, rsize, sd, ap, en) in enumerate(regions):
        if not en:
            continue
        ls_ = rsize + 1
        if ls_ == 32 or (va >> ls_) == (base >> ls_):
            if ls_ >= 8 and (sd >> ((va >> (ls_ - 3)) & 7)) & 1:
                continue
            found = (i, ap, ls_ >= 8 and sd != 0)
    if found is None:
        return 'background-' + ('br' if br and ispriv else 'fault')
    lower = any(1 for i, (base, rsize, sd, ap, en) in enumerate(regions[:found[0]]) if en and
                ((rsize + 1) == 32 or (va >> (rsize + 1)) == (base >> (rsize + 1))) and ap != found[1])
    return 'region%s%s-ap%d' % ('-over-lower' if lower else '', '-subregions' if found[2] else '', found[1])


def replay(data):
    if (data.get('replay') or {}).get('snapshot'):
        return L.replay_rows(ID, data)          # clusters of the lock-step rows carry their complete pre-state
    return dict(evaluations=0, violations=[], not_replayable='this cluster is described in full by the file; it has no executable replay')


def finish(agg, tier, seed):
    c = agg['counters']
    inc = L.finish_rows(agg, 1000)
    if c.get('decisions_ok', 0) < 2000 or c.get('decisions_abort', 0) < 2000:
        inc.append('too few decisions')
    return dict(inconclusive=inc, coverage=dict(
        deciding_rules_observed=sorted(agg['sets'].get('rules', ()))[:80],
        rows_exercised=len(agg['sets'].get('rows', ())),
        explanation='region sets and addresses sampled (boundary-biased); nothing enumerated completely'))
