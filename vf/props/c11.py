"""C11 — exception entry: every kind of entry the emulator exposes (Undefined, SVC, SMC, Data Abort, IRQ, FIQ,
Hyp trap, Reset) driven directly and through instructions from randomly composed valid states, compared
location-by-location with the reference entry procedures (B1.9)."""
from vf.common import use_repo, rng_for
use_repo()

ID = 'C11'
LEVEL = 'exploration'
SHARD_TIMEOUT = {'quick': 900, 'thorough': 7200}
RULE = ('case = (exception kind) x (source mode legal for the configuration and security state) x T x IT class x A/I/F x '
        'SCTLR.{V,VE,TE,EE} x SCR.{NS,EA,IRQ,FIQ,AW,FW} x HCR.{TGE,IMO,FMO,AMO} x HSCTLR.{TE,EE} x VBAR/MVBAR/HVBAR x PC '
        'in {0, mid, top of the address space} x configuration in {no extensions, Security, Security+Virtualization, and two with the IMPLEMENTATION DEFINED reset / VE interrupt vectors of the configuration file moved}; all '
        'factors drawn independently at random (every pair of factor values occurs many times); the full post-state is '
        'compared with the reference entry. source state ThumbEE (J = T = 1) for a fifth of the Thumb-state direct entries; Hyp traps taken from inside a stepped WFI/WFE (HCR.TWI/TWE); UNDEFINED and SMC entries also from stepped 16- and 32-bit Thumb encodings (UDF, UDF.W, SMC in every mode); non-trivial = always (an entry changes mode/SPSR/LR/PC); distinct = (kind, '
        'route taken, source mode, T, configuration)')
ASSUMPTIONS = ['vf/ref/model.py transcribes TakeUndefInstrException ... TakePhysicalFIQException / EnterMonitorMode / '
               'EnterHypMode / TakeReset; HSR contents are UNKNOWN for the routed cases and not compared',
               'external / asynchronous aborts cannot be generated (mock hooks return False), so their routing is not exercised']
CFGS = ['v6-pmsa', 'v6-pmsa-sec', 'v7-vmsa-sec', 'v7-vmsa-virt', 'v5-pmsa', 'v6-pmsa-sec-impdef', 'v7-vmsa-virt-impdef']
KINDS = ['undef', 'svc', 'smc', 'dabort', 'irq', 'fiq', 'hyptrap', 'reset', 'svc-insn', 'udf-insn', 'hyptrap-insn', 'smc-insn']


def plan(tier, seed):
    n = 12 if tier == 'quick' else 48
    return [dict(seed=seed, shard=i, n=4500 if tier == 'quick' else 45000) for i in range(n)]


def _reset_bad(cfg, post):
    vbar_reset = int(cfg['reset_values'].get('VBAR', '0b0'), 2)
    want_pc = (0xFFFF0000 if (post['sctlr'] >> 13) & 1 else (vbar_reset if cfg['have_security_ext'] else 0)) & ~1
    if cfg.get('has_imp_def_reset_vector'):
        want_pc = cfg['impdef_reset_vector'] & ~1          # TakeReset: HasIMPDEFResetVector() comes before ExcVectorBase()
    c = post['cpsr']
    bad = []
    if (c & 0x1F) != 0x13:
        bad.append('mode')
    if (c & 0x1C0) != 0x1C0:
        bad.append('AIF')
    if c & 0x0600FC00 or (c >> 24) & 1:
        bad.append('IT/J')
    if ((c >> 5) & 1) != ((post['sctlr'] >> 30) & 1) or ((c >> 9) & 1) != ((post['sctlr'] >> 25) & 1):
        bad.append('T/E')
    if cfg['have_security_ext'] and post['scr'] & 1:
        bad.append('SCR.NS')
    if post['PC'] != want_pc:
        bad.append('vector')
    if post['vbar'] != vbar_reset:
        bad.append('VBAR')
    return bad


class _NotJudged(Exception):
    pass


def _do_entry(cpu, cfg, pre, kind, align):
    """the real entry and the reference entry from the same pre-state; returns the reference CPU (None for reset)"""
    from vf import scen
    from vf.ref.model import RefCPU, RefAbort
    from vf.ref import step as RS
    from armulator.armv6.arm_exceptions import DataAbortException
    from armulator.armv6.enums import DAbort
    r = cpu.registers
    ref = RefCPU(pre, cfg)
    if kind == 'undef':
        r.take_undef_instr_exception()
        ref.take_undef()
    elif kind == 'svc':
        r.take_svc_exception()
        ref.take_svc()
    elif kind == 'smc':
        r.take_smc_exception()
        ref.take_smc()
    elif kind == 'dabort':
        r.take_data_abort_exception(DataAbortException(DAbort.ALIGNMENT if align else DAbort.PERMISSION, False))
        ref.take_data_abort(RefAbort('alignment' if align else 'permission', 0, False))
    elif kind == 'irq':
        r.take_physical_irq_exception()
        ref.take_irq()
    elif kind == 'fiq':
        r.take_physical_fiq_exception()
        ref.take_fiq()
    elif kind == 'hyptrap':
        r.take_hyp_trap_exception()
        ref.take_hyp_trap()
    elif kind == 'reset':
        cpu.take_reset()
        return None
    else:
        k, sig = scen.step(cpu)
        verdict, ref, info = RS.step(pre, cfg)
        if verdict != 'ok' or k != 'ok':
            raise _NotJudged()
    return ref


def run_shard(spec):
    from vf import lockstep, scen, machine as M, observe
    from vf.ref.model import RefCPU, RefAbort
    from vf.ref import step as RS
    from armulator.armv6.arm_exceptions import DataAbortException
    from armulator.armv6.enums import DAbort
    rng = rng_for(ID, spec['seed'], spec['shard'])
    ls = lockstep.LockStep(ID, rng)
    res = ls.res
    res['sets']['routes'] = set()
    for i in range(spec['n']):
        cfgname = rng.choice(CFGS)
        ctx = ls.ctx((cfgname, 'off'))
        cfg = ctx.cfg
        kind = rng.choice(KINDS)
        if kind in ('smc', 'smc-insn') and not cfg['have_security_ext']:
            continue
        if kind in ('hyptrap', 'hyptrap-insn') and not cfg['have_virt_ext']:
            continue
        ns = rng.randrange(2) if cfg['have_security_ext'] else 0
        if kind in ('hyptrap', 'hyptrap-insn'):
            ns = 1
        mode = rng.choice(ctx.legal_modes(ns))
        if kind in ('hyptrap', 'hyptrap-insn') and mode in ('hyp', 'mon'):
            mode = 'svc'
        thumb = rng.random() < 0.5
        itpos = rng.choice(['out', 'out', 'mid', 'last']) if thumb else 'out'
        word, ikind = (0xBF00, 't16') if thumb else (0xE1A00000, 'arm')
        if kind == 'svc-insn':
            word, ikind = (0xDF00 | rng.getrandbits(8), 't16') if thumb else (0xEF000000 | rng.getrandbits(24), 'arm')
            itpos = 'out'
        elif kind == 'udf-insn':
            word, ikind = (0xDE00 | rng.getrandbits(8), 't16') if thumb else (0xE7F000F0 | (rng.getrandbits(12) << 8) | rng.getrandbits(4), 'arm')
            if thumb and rng.random() < 0.5:
                # a 32-bit Thumb encoding that is UNDEFINED: UDF.W, or a word of the permanently undefined space
                word, ikind = (0xF7F0A000 | (rng.getrandbits(4) << 16) | rng.getrandbits(12), 't32')
            itpos = 'out'
        elif kind == 'smc-insn':
            # SMC executed: Secure Monitor Call from a privileged mode, UNDEFINED from User mode (32-bit encoding in Thumb)
            word, ikind = (0xF7F08000 | (rng.getrandbits(4) << 16), 't32') if thumb else (0xE1600070 | rng.getrandbits(4), 'arm')
            itpos = 'out'
        elif kind == 'hyptrap-insn':
            # a Hyp trap taken from INSIDE an executing instruction (WFI with HCR.TWI, WFE with HCR.TWE and no event pending)
            wfe = rng.random() < 0.4
            word, ikind = ((0xBF20 if wfe else 0xBF30), 't16') if thumb else ((0xE320F002 if wfe else 0xE320F003), 'arm')
        code = rng.choice([0x10000, 0x10000, 0x0, 0x4, 0xFFFFFFFC, 0xFFFFFFF8])
        desc = scen.prepare(ctx, rng, ikind, word, mode=mode, itpos=itpos, ns=ns, code=code, e=rng.randrange(2))
        cpu = ctx.cpu
        r = cpu.registers
        r.sctlr.v = rng.randrange(2)
        r.sctlr.ve = 1 if rng.random() < 0.25 else 0
        r.sctlr.te = rng.randrange(2)
        r.sctlr.ee = rng.randrange(2)
        r.vbar.value = rng.choice([0, 0x20, 0x7000, 0xFFFFFFE0, 0x11000])
        r.mvbar = rng.choice([0, 0x40, 0xFFFFFFE0, 0x6000])
        r.hvbar = rng.choice([0, 0x60, 0xFFFFFFE0, 0x5000])
        if cfg['have_security_ext']:
            r.scr.value = (rng.getrandbits(6) << 1) | ns        # EA FIQ IRQ FW AW
            if mode == 'mon' and rng.random() < 0.5:
                r.scr.ns = 1          # Monitor mode is Secure whatever SCR.NS says; an exception taken from it clears NS
                desc['ns'] = 1
        if cfg['have_virt_ext']:
            r.hcr.tge = 1 if rng.random() < 0.3 else 0
            r.hcr.imo = rng.randrange(2)
            r.hcr.fmo = rng.randrange(2)
            r.hcr.amo = rng.randrange(2)
            r.hsctlr.te = rng.randrange(2)
            r.hsctlr.ee = rng.randrange(2)
        if thumb and kind in ('undef', 'svc', 'smc', 'dabort', 'irq', 'fiq', 'hyptrap') and rng.random() < 0.2:
            r.cpsr.j = 1                  # source state ThumbEE (J = T = 1): every entry clears J and sets T from (H)SCTLR.TE
            desc['thumbee'] = True
            ls.bump('entries_from_thumbee')
        if kind == 'hyptrap-insn':
            r.hcr.twi = 1
            r.hcr.twe = 1
            r.hcr.tge = 0
            r.event_register = False
        desc.update(exc=kind, sctlr='%#x' % r.sctlr.value, scr='%#x' % r.scr.value, hcr='%#x' % r.hcr.value)
        M.activate(cpu)
        align = (rng.random() < 0.5) if kind == 'dabort' else False
        desc['align'] = align
        pre = observe.snapshot(cpu)
        try:
            ref = _do_entry(cpu, cfg, pre, kind, align)
        except _NotJudged:
            ls.bump('insn_entry_not_judged')
            continue
        except Exception as ex:
            ls.report('C11|host-error|%s|%s' % (kind, type(ex).__name__), dict(desc), desc, pre=pre)
            continue
        post = observe.snapshot(cpu)
        res['evaluations'] += 1
        newmode = post['cpsr'] & 0x1F
        route = '%s->%s' % (kind, M.MODE_NAMES.get(newmode, bin(newmode)))
        res['sets']['routes'].add(route)
        res['nontrivial'].add('%s|%s|%s|%s' % (route, mode, 'T' if thumb else 'A', cfgname))
        ls.bump('entries_' + kind)
        if kind == 'reset':
            # architecturally checkable part of TakeReset: mode, masks, execution state, NS, vector
            # ResetControlRegisters() comes first: the (Secure) VBAR holds its reset value again, whatever it held and whatever
            # SCR.NS was when the reset arrived, and the reset vector is taken from it
            bad = _reset_bad(cfg, post)
            c = post['cpsr']
            if bad:
                ls.report('C11|reset|%s' % ','.join(bad), dict(desc, cpsr_after='%#x' % c, pc='%#x' % post['PC']), desc, pre=pre)
            continue
        diffs = RS.compare(ref, post)
        if diffs:
            kinds = sorted({lockstep_cat(l, e, g, ref) for l, e, g in diffs})
            ls.report('C11|%s|%s' % (route, ','.join(kinds)[:60]),
                      dict(desc, diffs=[(l, '%#x' % e if isinstance(e, int) else str(e), '%#x' % g if isinstance(g, int) else str(g))
                                        for l, e, g in diffs[:6]]), desc, pre=pre)
        elif len(res['samples']) < 3 and rng.random() < 0.002:
            res['samples'].append(dict(desc, route=route, pc_after='%#x' % post['PC'], cpsr_after='%#x' % post['cpsr']))
    res['violations'] = list(ls.viol.values())
    return res


def lockstep_cat(loc, exp, got, ref):
    from vf import lockstep
    c = lockstep.categ(loc)
    if c == 'cpsr':
        c = 'cpsr:' + lockstep.cpsr_kind(exp, got, ref.cpsr_unknown)
    return c


def replay(data):
    """the entry again from the complete pre-state the cluster's first case carries"""
    import random
    from vf import lockstep, machine as M, observe
    from vf.ref import step as RS
    rp = data.get('replay') or {}
    if not rp.get('snapshot') or 'exc' not in rp:
        return dict(evaluations=0, violations=[], not_replayable='this cluster is described in full by the file; it has no executable replay')
    ls = lockstep.LockStep(ID, random.Random(0))
    ctx = ls.ctx(tuple(rp['ctx']))
    cpu = ctx.cpu
    M.activate(cpu)
    observe.restore(cpu, observe.unjson(rp['snapshot']))
    pre = observe.snapshot(cpu)
    kind = rp['exc']
    out = dict(evaluations=1, violations=[])
    try:
        ref = _do_entry(cpu, ctx.cfg, pre, kind, bool(rp.get('align')))
    except _NotJudged:
        return out
    except Exception as ex:
        out['violations'].append(dict(key='C11|host-error|%s|%s' % (kind, type(ex).__name__), desc=repr(ex)))
        return out
    post = observe.snapshot(cpu)
    if kind == 'reset':
        bad = _reset_bad(ctx.cfg, post)
        if bad:
            out['violations'].append(dict(key='C11|reset|%s' % ','.join(bad), desc='pc %#x cpsr %#x' % (post['PC'], post['cpsr'])))
        return out
    diffs = RS.compare(ref, post)
    if diffs:
        out['violations'].append(dict(key='C11|%s' % kind, desc=str(diffs[:6])))
    return out


def finish(agg, tier, seed):
    c = agg['counters']
    inc = []
    for k in ('undef', 'svc', 'smc', 'dabort', 'irq', 'fiq', 'hyptrap', 'reset', 'svc-insn', 'udf-insn'):
        if c.get('entries_' + k, 0) < 200:
            inc.append('too few %s entries (%d)' % (k, c.get('entries_' + k, 0)))
    return dict(inconclusive=inc, coverage=dict(routes_observed=sorted(agg['sets'].get('routes', ())),
                                                explanation='factor combinations sampled at random; nothing exhaustive'))
