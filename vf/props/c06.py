"""C06 — ARM decode: reference encoding table vs the real decoder (class selection decided exhaustively over
all 2^32 words by product-path enumeration; operands on samples of every product path; state independence)."""
from vf.props import _decode as D

ID = 'C06'
LEVEL = 'exploration'
SHARD_TIMEOUT = D.SHARD_TIMEOUT
RULE = ('class selection: every feasible path of the product (real ARM decoder ; reference table), enumerated by the '
        'bit-provenance tracer with a model-count check that the paths partition 2^32; operands: per product path the '
        'witness, all-free-bits-0/1, each free bit alone and random members are decoded end-to-end by the emulator '
        '(decode + from_bitarray) and compared with the reference row\'s operand recipe; every 8th word is decoded twice '
        'under different machine states and through a recording proxy; plus uniformly random words, words generated from every '
        'reference row (register pools, structured register lists, corner immediates), words one fixed bit away from a word of '
        'another row, pairs of free bits per product path; a third of these after the same number has been decoded in the '
        'OTHER instruction set on the same processor object (history independence). field-product sweep: per reference row ALL values of the narrow fields x corner values of the wide ones x registers {0,1,SP,LR,PC}; decode through two real steps of the same word from states that differ in the carry flag (and in data endianness: the stepped class and operands must be those of a direct decode of the word in the same state). non-trivial = a '
        'defined instruction whose operands were compared; distinct = (row, product path, IT position)')
ASSUMPTIONS = ['vf/ref/spec_arm.py transcribes the ARM encoding tables (A5) and per-instruction decode pseudocode (A8)',
               'decoders reach the instruction word only through substring/bit_at/chain/bit_count (else the path is opaque)',
               'words the reference calls UNPREDICTABLE constrain nothing here']


def plan(tier, seed):
    q = tier == 'quick'
    n = 12 if q else 48
    specs = [dict(kind='product', set='arm', seed=seed, shard=i, of=n, per_path=24 if q else 2000) for i in range(n)]
    specs += [dict(kind='random', set='arm', seed=seed, shard=i, n=15000 if q else 400000) for i in range(4 if q else 16)]
    nr = 8 if q else 32
    specs += [dict(kind='rows', set='arm', seed=seed, shard=i, of=nr, per_row=120 if q else 8000) for i in range(nr)]
    specs += [dict(kind='steps', set='arm', seed=seed, shard=i, n=4000 if q else 150000) for i in range(3 if q else 12)]
    nf = 16 if q else 64
    specs += [dict(kind='fields', set='arm', seed=seed, shard=i, of=nf, cap=2500 if q else 60000) for i in range(nf)]
    return specs


def run_shard(spec):
    return D.run_shard_common(ID, spec, ('arm',))


def replay(data):
    return D.replay_common(ID, data)


def finish(agg, tier, seed):
    c = agg['counters']
    inc = []
    n = max(1, len([1 for _ in range(1)]))
    if not c.get('arm_complete') or not c.get('arm_partition_ok'):
        inc.append('product path enumeration incomplete / partition check failed')
    if c.get('arm_opaque', 0):
        inc.append('opaque uses of instruction bits in the decoder')
    if c.get('operand_sets_compared', 0) < 5000:
        inc.append('too few operand comparisons')
    shards = c.get('arm_product_paths', 0)
    return dict(inconclusive=inc, coverage=dict(
        exhaustive=False,
        exhaustive_subspaces=['class selection over all 2^32 ARM words (product paths partition the space: model count checked)'],
        rows_matched=len(agg['sets'].get('rows_matched', ())),
        processor_attributes_read_by_decode=sorted(agg['sets'].get('proc_reads', ())),
        attributes_not_compared=sorted(agg['sets'].get('attrs_not_compared', ()))[:60],
        explanation='class selection is decided for every word; operand extraction is sampled per product path'))
