"""C20 — determinism and isolation.  Reference-free trace equality:
 (1) replay: deep copy at a random point, both run k more steps, traces equal;
 (2) history independence: an aged CPU and a fresh CPU restored to the same architectural snapshot
     (scratch fields deliberately left as they are) produce equal traces; and, in volume, before EVERY step of a running
     program its snapshot is written into a deep copy of a never-stepped instance and both take the step;
 (3) isolation: instances (same or different configuration files) whose creation / reset / steps are
     interleaved — every interleaving for 2 x (create, reset, step, step), random schedules for longer
     programs — each produce exactly the trace they produce alone.
The harness never re-activates a configuration here: the instances are left to themselves."""
import copy
import hashlib
import itertools
import random
from vf.common import use_repo, rng_for, exc_signature
use_repo()

ID = 'C20'
LEVEL = 'exploration'
RULE = ('case = one program (words drawn from every decoder path + random words, laid out at the reset PC and at '
        'the exception vectors) run under one scenario: replay-from-deep-copy, history-independence-after-restore, '
        'or an interleaving schedule of 2-3 instances; the per-step trace (all registers, CPSR, system registers, '
        'memory digest, escaped-exception signature) must equal the solo trace; and, step by step, a running instance against a deep copy of a never-stepped instance restored to its architectural state before EVERY step (bookkeeping flags that are not architectural are not restored); instances also run with the protection unit ON; the lower RAM device of an instance ends 0-3 bytes into the word under the initial stack pointer and programs access that word with every size; non-trivial = the program executes '
        '>= 3 distinct PCs and at least one non-undefined instruction; distinct = (scenario, configuration pair, '
        'schedule shape, trace digest)')
ASSUMPTIONS = ['a "step" is ArmV6.emulate_cycle(); instance creation is ArmV6(config_file) followed by take_reset()',
               'the trace compares architectural state only (not opcode/opcode_len/executed_opcode scratch fields)']
SHARD_TIMEOUT = {'quick': 900, 'thorough': 7200}

CFGS = ['v6-pmsa-sec', 'v7-vmsa-sec', 'v7-pmsa-r', 'v4-pmsa', 'v5-pmsa', 'v7-vmsa-virt', 'v6-pmsa', 'v6-pmsa-sec-rv', 'v7-vmsa-sec-rv', 'v6-pmsa-sec-impdef', 'v7-vmsa-virt-impdef']
PAIRS_DIFF = [('v6-pmsa-sec', 'v7-vmsa-sec'), ('v4-pmsa', 'v7-pmsa-r'), ('v7-pmsa-r', 'v6-pmsa-sec'),
              ('v5-pmsa', 'v7-vmsa-virt'), ('v6-pmsa', 'v6-pmsa-sec'), ('v7-vmsa-sec', 'v4-pmsa'),
              ('v6-pmsa-sec', 'v6-pmsa-sec-rv'), ('v7-vmsa-sec-rv', 'v7-vmsa-sec'), ('v6-pmsa-sec-rv', 'v7-vmsa-sec-rv'),
              # files that differ in the IMPLEMENTATION DEFINED keys only (reset / VE vectors, region count, syndrome filler bits)
              ('v6-pmsa-sec', 'v6-pmsa-sec-impdef'), ('v7-vmsa-virt-impdef', 'v7-vmsa-virt')]


def plan(tier, seed):
    q = tier == 'quick'
    specs = []
    # thorough: 64 shards of about ten minutes each (every scenario forks children; 16 cores -> about 45 minutes)
    for i in range(6 if q else 16):
        specs.append(dict(kind='replay', seed=seed, shard=i, n=150 if q else 1000))
    for i in range(4 if q else 16):
        specs.append(dict(kind='history', seed=seed, shard=i, n=150 if q else 1000))
    for i in range(6 if q else 16):
        specs.append(dict(kind='isolation', seed=seed, shard=i, n=12 if q else 60, rand=120 if q else 800))
    for i in range(6 if q else 16):
        specs.append(dict(kind='aged', seed=seed, shard=i, n=250 if q else 1600, steps=25))
    return specs


_words = {}


def forked(fn, *args):
    """Run fn(*args) in a child forked from this (pristine) worker and return its result.  The parent never
    executes emulator code itself, so every scenario starts from a process in which nothing ran before —
    "alone" really means alone, and module- or class-level state leaking between runs cannot hide."""
    import os
    import pickle
    import select
    r, w = os.pipe()
    pid = os.fork()
    if pid == 0:
        try:
            os.close(r)
            try:
                data = pickle.dumps(('ok', fn(*args)))
            except BaseException as ex:      # noqa
                data = pickle.dumps(('err', repr(ex)))
            with os.fdopen(w, 'wb') as f:
                f.write(data)
        finally:
            os._exit(0)
    os.close(w)
    chunks = []
    with os.fdopen(r, 'rb') as f:
        while True:
            ready, _, _ = select.select([f], [], [], 120)
            if not ready:
                os.kill(pid, 9)
                os.waitpid(pid, 0)
                return ('timeout', None)
            b = f.read(1 << 16)
            if not b:
                break
            chunks.append(b)
    os.waitpid(pid, 0)
    import pickle as _p
    try:
        return _p.loads(b''.join(chunks))
    except Exception:
        return ('err', 'no result from child')


def _make_pool(seed):
    from vf import trace_decode as td
    cubes, info = td.all_paths(random.Random(seed))
    return {name: [(m, v, ds) for (m, v, ds, out, wit) in cubes[name] if not out.startswith(('#', 'EXC', 'None'))]
            for name in ('arm', 't32', 't16')}


def word_pool(seed):
    """Words that decode to real instructions: members of every decoder path (plus raw random)."""
    if not _words:
        st, pool = forked(_make_pool, seed)
        assert st == 'ok', pool
        _words.update(pool)
    return _words


# instructions whose outcome depends on the configuration (Security / Virtualization Extensions, architecture
# version): mode changes naming Monitor / Hyp / FIQ mode, SMC, SRS to another mode's stack, exception returns
SENSITIVE_ARM = ([0xE321F000 | m for m in (0xD6, 0xDA, 0xD1, 0xD2, 0xD7, 0xDB, 0xDF, 0xD3)] +        # MSR CPSR_c, #mode
                 [0xF1020000 | m for m in (0x16, 0x1A, 0x11, 0x12, 0x17, 0x1B, 0x1F, 0x13)] +        # CPS #mode
                 [0xE1600070, 0xE1400070, 0xE160006E, 0xE10F0000, 0xE14F0000, 0xE169F000,           # SMC, HVC, ERET, MRS, MSR SPSR
                  0xF96D0516, 0xF96D051A, 0xF96D0513, 0xF8BD0A00, 0xE1B0F00E, 0xE8BD8000,           # SRS, RFE, MOVS PC,LR, POP {pc}
                  0xE12FFF1E, 0xE1A0F00E, 0xE5901001, 0xE7F000F0])                                   # BX LR, MOV PC,LR, unaligned LDR, UDF
SENSITIVE_THUMB = ([(0xF3AF, 0x8100 | m) for m in (0x16, 0x1A, 0x11, 0x12, 0x17, 0x1B, 0x1F, 0x13)] +  # CPS #mode (T2)
                   [(0x20D6,), (0x20DA,), (0x20D1,), (0x20D3,), (0xF380, 0x8100), (0xF390, 0x8100),       # MOVS r0,#mode ; MSR CPSR_c/SPSR_c, r0
                    (0xF7F0, 0x8000), (0xF3DE, 0x8F00), (0xF3EF, 0x8000), (0xE80D, 0xC016), (0xE9BD, 0xC000),  # SMC, ERET, MRS, SRS, RFE
                    (0x4770,), (0xBD00,), (0xDE00,), (0x4778,)])                                          # BX LR, POP {pc}, UDF, BX PC


# exclusive accesses on the (mapped, aligned) stack word: LDREX r1,[sp] / STREX r2,r3,[sp] / CLREX and a harmless filler.
# Whether a STREX succeeds is state of the monitors, which belong to the instance like everything else.
EXCL_ARM = dict(ldrex=(0xE19D1F9F,), strex=(0xE18D2F93,), clrex=(0xF57FF01F,), fill=(0xE2844001,))
EXCL_THUMB = dict(ldrex=(0xE85D, 0x1F00), strex=(0xE84D, 0x3200), clrex=(0xF3BF, 0x8F2F), fill=(0x3401,))


# accesses to the two words under the initial stack pointer (0x6FF8 .. 0x6FFF): the lower RAM device of an instance ends inside
# that word (Inst.create), so word / doubleword / halfword accesses there are served only in part by it
STACK_ARM = [(0xE92D0003,), (0xE8BD0030,), (0xE50D2008,), (0xE51D1008,), (0xE14D20D8,), (0xE15D40B8,), (0xE50D3004,),
             (0xE92D0003, 0xE59D5000, 0xE8BD00C0)]
STACK_THUMB = [(0xB403,), (0xBC30,), (0xF84D, 0x2C08), (0xF85D, 0x1C08), (0xE95D, 0x2302), (0xF83D, 0x4C08), (0xF84D, 0x3C04),
               (0xB403, 0x9D00, 0xBCC0)]


def gen_program(rng, thumb, n=24, seed=0, sensitive=0.0):
    from vf import trace_decode as td
    pool = word_pool(seed)
    out = bytearray()
    excl = rng.random() < 0.15
    stack = rng.random() < 0.3

    def emit(words):
        for w_ in words:
            out.extend(w_.to_bytes(2 if thumb else 4, 'little'))

    while len(out) < n * 4:
        r = rng.random()
        if excl and (not out or rng.random() < 0.3):
            tab = EXCL_THUMB if thumb else EXCL_ARM
            emit(tab['ldrex'])
            for _ in range(rng.randrange(3)):
                emit(tab['fill'])
            if rng.random() < 0.2:
                emit(tab['clrex'])
            emit(tab['strex'])
            continue
        if stack and (not out or rng.random() < 0.3):
            emit(rng.choice(STACK_THUMB if thumb else STACK_ARM))
            continue
        if sensitive and (rng.random() < sensitive or (not out and rng.random() < 0.6)):
            if not thumb:
                out += rng.choice(SENSITIVE_ARM).to_bytes(4, 'little')
            else:
                for hw in rng.choice(SENSITIVE_THUMB):
                    out += hw.to_bytes(2, 'little')
            continue
        if not thumb:
            if r < 0.85:
                m, v, ds = rng.choice(pool['arm'])
                w = td.sample(m, v, ds, 32, rng)
                if w is None:
                    continue
                if rng.random() < 0.7:
                    w = (w & 0x0FFFFFFF) | 0xE0000000 if (w >> 28) != 0xF else w
            else:
                w = rng.getrandbits(32)
            out += w.to_bytes(4, 'little')
        else:
            if r < 0.45:
                m, v, ds = rng.choice(pool['t32'])
                w = td.sample(m, v, ds, 32, rng)
                if w is None:
                    continue
                out += (w >> 16).to_bytes(2, 'little') + (w & 0xFFFF).to_bytes(2, 'little')
            elif r < 0.9:
                m, v, ds = rng.choice(pool['t16'])
                w = td.sample(m, v, ds, 16, rng)
                if w is None:
                    continue
                out += w.to_bytes(2, 'little')
            else:
                out += rng.getrandbits(16).to_bytes(2, 'little')
    return bytes(out)


class Inst:
    """One processor instance created exactly the way a user would: ArmV6(config_file); take_reset()."""

    def __init__(self, cfgname, program, thumb, regseed):
        from vf import scen, machine as M
        self.cfgname = cfgname
        self.program = program
        self.thumb = thumb
        self.regseed = regseed
        self.cpu = None
        self.path = M.config_path(scen.cfg_of(cfgname))

    def create(self):
        from vf import scen, machine as M
        self.cpu = M.Cpu(self.path)
        # the code RAM is two ADJACENT controllers with the seam inside the program (and a third seam inside the stack
        # area): which controller serves an access must depend on the address only, never on the previous access
        mems = []
        for b, e in scen.MEMS:
            if b == scen.RAM_B[0]:
                mems += [(b, b + 0x28), (b + 0x28, e)]
            elif b == 0:
                # ... for every other instance at an address that is not a multiple of the access size, so that a word or
                # doubleword access to the last word of the lower device is served only in part by it (what it returns for
                # the rest must not depend on any earlier access of any instance)
                seam = 0x6FF8 + self.regseed % 4
                mems += [(b, seam), (seam, e)]
            else:
                mems.append((b, e))
        M.set_memories(self.cpu, mems, M.pattern_fill)

    def reset(self):
        from vf import scen, machine as M
        cpu = self.cpu
        cpu.registers.sctlr.te = 1 if self.thumb else 0
        cpu.take_reset()
        cpu.registers.sctlr.m = 0
        rng = random.Random(self.regseed)
        if self.cpu.configs['memory_system_architecture'] == 'PMSA' and self.regseed % 3 == 0:
            # protection unit ON with no region programmed and SCTLR.BR = 1: privileged code runs from the background map,
            # so every fetch and data access goes through the (configuration-dependent) translation code
            cpu.registers.sctlr.br = 1
            cpu.registers.sctlr.m = 1
        cpu.registers.cpsr.value = (cpu.registers.cpsr.value & 0x0FFFFFFF) | (rng.getrandbits(4) << 28)   # NZCV from the seed
        for n in range(13):
            cpu.registers.set(n, scen.reg_value(rng))
        cpu.registers.set(13, 0x7000)
        cpu.registers.set(14, scen.CODE + 0x40 | (1 if self.thumb else 0))
        M.poke(cpu, 0, self.program[16:16 + 0x60])             # vectors at 0 (reset PC is the vector base)
        M.poke(cpu, scen.CODE, self.program)
        cpu.registers.branch_to(scen.CODE)

    def step(self):
        from vf import observe
        cpu = self.cpu
        sig = None
        try:
            cpu.emulate_cycle()
        except NotImplementedError as ex:
            sig = 'NotImplementedError'
        except Exception as ex:
            sig = '|'.join(map(str, exc_signature(ex)[:3]))
        snap = observe.snapshot(cpu)
        h = hashlib.sha1()
        for k in sorted(snap):
            h.update(k.encode())
            h.update(repr(snap[k]).encode() if not isinstance(snap[k], bytes) else snap[k])
        return (snap['PC'], snap['cpsr'], h.hexdigest()[:16], sig)


def solo_trace(cfgname, program, thumb, regseed, steps):
    i = Inst(cfgname, program, thumb, regseed)
    i.create()
    i.reset()
    return [i.step() for _ in range(steps)]


def sc_replay(cfg, prog, thumb, regseed, k0, k):
    """child: run k0 steps, deep-copy, then alternate original and copy for k steps"""
    inst = Inst(cfg, prog, thumb, regseed)
    inst.create()
    inst.reset()
    head = [inst.step() for _ in range(k0)]
    twin = Inst(cfg, prog, thumb, regseed)
    twin.cpu = copy.deepcopy(inst.cpu)
    ta, tb = [], []
    for _ in range(k):
        ta.append(inst.step())
        tb.append(twin.step())
    return head, ta, tb


def sc_snapshot(cfg, prog, thumb, regseed, k0):
    from vf import observe
    src = Inst(cfg, prog, thumb, regseed)
    src.create()
    src.reset()
    for _ in range(k0):
        src.step()
    return observe.snapshot(src.cpu)


def sc_from_snapshot(cfg, snap, age_prog, age_thumb, age_seed, age_steps, k):
    """child: optionally age an instance with another program, then restore the architectural snapshot
    (scratch fields left as they are) and run k steps"""
    from vf import observe
    inst = Inst(cfg, age_prog, age_thumb, age_seed)
    inst.create()
    if age_steps:
        inst.reset()
        for _ in range(age_steps):
            inst.step()
    keep = getattr(inst.cpu.registers, 'it_state_restored', None)
    observe.restore(inst.cpu, snap)
    if keep is not None:
        inst.cpu.registers.it_state_restored = keep          # non-architectural bookkeeping is NOT taken from the snapshot
    return [inst.step() for _ in range(k)]


def sc_schedule(cfgs, progs, thumbs, seeds, schedule):
    insts = [Inst(c, p, t, s) for c, p, t, s in zip(cfgs, progs, thumbs, seeds)]
    traces = [[] for _ in insts]
    for ev, i in schedule:
        if ev == 'c':
            insts[i].create()
        elif ev == 'r':
            insts[i].reset()
        else:
            traces[i].append(insts[i].step())
    return traces


def aged_steps(spec, res, bump, report, rng):
    """(2b) history independence, step by step and in volume: an instance runs a program; before EVERY step its
    architectural snapshot is written into a deep copy of a never-stepped instance of the same configuration, and both take
    the step.  Whatever the stepped instance has accumulated outside its architectural state (decode caches, flags, memo
    tables on the object) shows up as a difference.  In-process, so class-level state is common to both (that is what the
    forked scenarios are for)."""
    from vf import observe
    templates = {}
    for p in range(spec['n']):
        cfg = rng.choice(CFGS)
        thumb = rng.random() < 0.5
        prog = gen_program(rng, thumb, seed=spec['seed'], sensitive=rng.choice([0.0, 0.0, 0.3]))
        if rng.random() < 0.5:
            prog = prog[:24] * 4              # a short loop body repeated: the same words come round again
        regseed = rng.getrandbits(32)
        a = Inst(cfg, prog, thumb, regseed)
        a.create()
        a.reset()
        tkey = (cfg, regseed % 4)                # the device layout of an instance depends on its seed (Inst.create)
        if tkey not in templates:
            t = Inst(cfg, prog, thumb, regseed)
            t.create()
            templates[tkey] = t.cpu
        pcs = set()
        for k in range(spec['steps']):
            pre = observe.snapshot(a.cpu)
            if rng.random() < 0.3:
                # same program point, other flags: re-execution of a word from a different state
                a.cpu.registers.cpsr.value ^= rng.getrandbits(4) << 28
                pre = observe.snapshot(a.cpu)
            ta = a.step()
            b = Inst(cfg, prog, thumb, regseed)
            b.cpu = copy.deepcopy(templates[tkey])
            observe.restore(b.cpu, pre)
            # bookkeeping that is not architectural state keeps the never-stepped instance's value: if the running instance
            # carries something else across a step boundary, that is exactly the history this scenario looks for
            if hasattr(b.cpu.registers, 'it_state_restored'):
                b.cpu.registers.it_state_restored = templates[tkey].registers.it_state_restored
            tb = b.step()
            res['evaluations'] += 1
            bump('aged_steps_compared')
            pcs.add(ta[0])
            if ta != tb:
                report('C20|history-dependent-step', '%s: step %d of a program (pc %#x): the instance that ran the program gives %s, a '
                       'never-stepped instance restored to the same architectural state gives %s' % (cfg, k, pre['PC'], ta, tb),
                       dict(kind='aged', cfg=cfg, thumb=thumb, program=prog.hex(), regseed=regseed, step=k))
                break
            if a.cpu.registers.bad_mode(a.cpu.registers.cpsr.m):
                break
        if len(pcs) >= 3:
            res['nontrivial'].add('aged|%s|%d' % (cfg, len(pcs)))


def first_diff(a, b):
    for i, (x, y) in enumerate(zip(a, b)):
        if x != y:
            return i
    return None if len(a) == len(b) else min(len(a), len(b))


def run_shard(spec):
    rng = rng_for('C20', spec['kind'], spec['seed'], spec['shard'])
    res = dict(evaluations=0, nontrivial=set(), counters={}, violations=[], samples=[], sets={'cfg_pairs': set()})
    viol = {}
    cnt = res['counters']

    def bump(k, n=1):
        cnt[k] = cnt.get(k, 0) + n

    def report(key, desc, replay):
        if key not in viol:
            viol[key] = dict(key=key, desc=desc, replay=replay, count=0)
        viol[key]['count'] += 1

    def nontrivial(trace):
        return len({t[0] for t in trace}) >= 3

    def child(fn, *a):
        st, val = forked(fn, *a)
        if st != 'ok':
            bump('child_failed_' + st)
            return None
        return val

    # import everything in the (pristine) parent so that children do not pay for it; importing executes
    # module bodies only, never an instruction
    from vf import scen, machine, observe, trace_decode     # noqa: F401
    import armulator.armv6.opcodes.decoders.arm_instruction_set    # noqa: F401
    word_pool(spec['seed'])
    if spec['kind'] == 'aged':
        aged_steps(spec, res, bump, report, rng)
    elif spec['kind'] == 'replay':
        for n in range(spec['n']):
            cfg = rng.choice(CFGS)
            thumb = rng.random() < 0.5
            prog = gen_program(rng, thumb, seed=spec['seed'], sensitive=rng.choice([0.0, 0.0, 0.3]))
            regseed = rng.getrandbits(32)
            k0 = rng.randrange(0, 12)
            k = 12
            out = child(sc_replay, cfg, prog, thumb, regseed, k0, k)
            solo = child(solo_trace, cfg, prog, thumb, regseed, k0 + k)
            if out is None or solo is None:
                continue
            head, ta, tb = out
            res['evaluations'] += 1
            bump('replay_runs')
            if nontrivial(ta):
                res['nontrivial'].add('replay|%s|%s' % (cfg, ta[-1][2]))
            rp = dict(kind='replay', cfg=cfg, thumb=thumb, program=prog.hex(), regseed=regseed, k0=k0)
            d = first_diff(ta, tb)
            if d is not None:
                report('C20|replay-diverged', '%s: step %d after snapshot point %d: %s vs %s' % (cfg, d, k0, ta[d], tb[d]), rp)
            d = first_diff(head + ta, solo)
            if d is not None:
                report('C20|rerun-in-fresh-process-diverged', '%s: step %d: %s vs %s' % (cfg, d, (head + ta)[d], solo[d]), rp)
            if n < 1 and spec['shard'] == 0:
                res['samples'].append(dict(scenario='replay', cfg=cfg, thumb=thumb, snapshot_point=k0,
                                           program=prog[:24].hex(), trace_pcs=['%#x' % t[0] for t in ta]))
    elif spec['kind'] == 'history':
        for n in range(spec['n']):
            cfg = rng.choice(CFGS)
            thumb = rng.random() < 0.5
            prog = gen_program(rng, thumb, seed=spec['seed'])
            regseed = rng.getrandbits(32)
            snap = child(sc_snapshot, cfg, prog, thumb, regseed, rng.randrange(0, 8))
            if snap is None:
                continue
            # the ageing run is either unrelated code or the SAME program from different register/flag values (so that a
            # memo keyed by part of the input - an address, an immediate - is filled with stale answers)
            if rng.random() < 0.5:
                age_prog, age_thumb = gen_program(rng, not thumb, seed=spec['seed']), not thumb
            else:
                age_prog, age_thumb = prog, thumb
            # (another register seed with the same device layout: the snapshot is restored device by device)
            ta = child(sc_from_snapshot, cfg, snap, age_prog, age_thumb, (rng.getrandbits(32) & ~3) | (regseed & 3), rng.randrange(3, 25), 10)
            tb = child(sc_from_snapshot, cfg, snap, prog, thumb, regseed, 0, 10)
            if ta is None or tb is None:
                continue
            res['evaluations'] += 1
            bump('history_runs')
            if nontrivial(ta):
                res['nontrivial'].add('history|%s|%s' % (cfg, ta[-1][2]))
            d = first_diff(ta, tb)
            if d is not None:
                report('C20|history-dependent', '%s: step %d: aged %s vs fresh %s' % (cfg, d, ta[d], tb[d]),
                       dict(kind='history', cfg=cfg, program=prog.hex(), age_program=age_prog.hex()))
    else:
        def check(cfgs, schedule, shape, progs, thumbs, seeds, solos):
            traces = child(sc_schedule, cfgs, progs, thumbs, seeds, schedule)
            if traces is None:
                return True
            res['evaluations'] += 1
            same = len(set(cfgs)) == 1
            bump('isolation_runs_same_cfg' if same else 'isolation_runs_diff_cfg')
            res['sets']['cfg_pairs'].add('+'.join(cfgs))
            for i in range(len(cfgs)):
                solo = solos[i][:len(traces[i])]
                d = first_diff(traces[i], solo)
                if nontrivial(solo):
                    res['nontrivial'].add('iso|%s|%s|%s' % ('+'.join(cfgs), shape, solo[-1][2] if solo else ''))
                if d is not None:
                    report('C20|isolation|%s' % ('same-config' if same else 'different-config'),
                           'instance %d (%s of %s) step %d: interleaved %s vs solo %s; schedule %s' % (
                               i, cfgs[i], '+'.join(cfgs), d, traces[i][d] if d < len(traces[i]) else None,
                               solo[d] if d < len(solo) else None, ''.join(e + str(j) for e, j in schedule)),
                           dict(kind='isolation', cfgs=cfgs, schedule=schedule, programs=[p.hex() for p in progs],
                                thumbs=thumbs, seeds=seeds))
                    return False
            return True

        def solos_for(cfgs, progs, thumbs, seeds):
            out = [child(solo_trace, c, p, t, s, 30) for c, p, t, s in zip(cfgs, progs, thumbs, seeds)]
            return None if any(o is None for o in out) else out

        for n in range(spec['n']):
            same = rng.random() < 0.4
            cfgs = [rng.choice(CFGS)] * 2 if same else list(rng.choice(PAIRS_DIFF))
            if rng.random() < 0.5:
                cfgs.reverse()
            thumbs = [rng.random() < 0.5 for _ in cfgs]
            sens = rng.choice([0.0, 0.3, 0.6])
            progs = [gen_program(rng, t, seed=spec['seed'], sensitive=sens) for t in thumbs]
            if rng.random() < 0.5:                # the same program (same addresses, same words) on both instances
                progs = [progs[0]] * 2
                thumbs = [thumbs[0]] * 2
            if sens:
                bump('isolation_programs_with_configuration_sensitive_instructions')
            seeds = [rng.getrandbits(32) for _ in cfgs]
            solos = solos_for(cfgs, progs, thumbs, seeds)
            if solos is None:
                continue
            # every interleaving of (create, reset, step, step) x 2 : C(8,4) = 70 schedules
            seq = ['c', 'r', 's', 's']
            for pos in itertools.combinations(range(8), 4):
                schedule = []
                ia = ib = 0
                for slot in range(8):
                    if slot in pos:
                        schedule.append((seq[ia], 0))
                        ia += 1
                    else:
                        schedule.append((seq[ib], 1))
                        ib += 1
                bump('schedules_enumerated')
                if not check(cfgs, schedule, 'exh', progs, thumbs, seeds, solos):
                    break
            if n == 0 and spec['shard'] == 0:
                res['samples'].append(dict(scenario='isolation', cfgs=cfgs, schedules='all 70 interleavings of c,r,s,s x 2',
                                           solo_pcs=[['%#x' % t[0] for t in s[:6]] for s in solos]))
        for n in range(spec['rand']):
            k = rng.choice([2, 2, 3])
            same = rng.random() < 0.4
            if same:
                cfgs = [rng.choice(CFGS)] * k
            else:
                cfgs = [rng.choice(CFGS) for _ in range(k)]
            thumbs = [rng.random() < 0.5 for _ in cfgs]
            sens = rng.choice([0.0, 0.0, 0.3, 0.6])
            progs = [gen_program(rng, t, seed=spec['seed'], sensitive=sens) for t in thumbs]
            if rng.random() < 0.5:
                progs = [progs[0]] * k          # same program, same addresses, different register seeds (and configurations)
                thumbs = [thumbs[0]] * k
            if sens:
                bump('isolation_programs_with_configuration_sensitive_instructions')
            seeds = [rng.getrandbits(32) for _ in cfgs]
            solos = solos_for(cfgs, progs, thumbs, seeds)
            if solos is None:
                continue
            todo = [['c', 'r'] + ['s'] * rng.randrange(5, 25) for _ in cfgs]
            schedule = []
            while any(todo):
                i = rng.choice([j for j in range(k) if todo[j]])
                schedule.append((todo[i].pop(0), i))
            bump('schedules_random')
            check(cfgs, schedule, 'rand%d' % k, progs, thumbs, seeds, solos)
    res['violations'] = list(viol.values())
    return res


def replay(data):
    rp = data['replay']
    out = dict(evaluations=1, violations=[])
    if rp.get('kind') == 'isolation':
        cfgs, progs = rp['cfgs'], [bytes.fromhex(p) for p in rp['programs']]
        sched = [tuple(x) for x in rp['schedule']]
        solos = [forked(solo_trace, c, p, t, s, 30)[1] for c, p, t, s in zip(cfgs, progs, rp['thumbs'], rp['seeds'])]
        traces = forked(sc_schedule, cfgs, progs, rp['thumbs'], rp['seeds'], sched)[1]
        for i in range(len(cfgs)):
            if first_diff(traces[i], solos[i][:len(traces[i])]) is not None:
                out['violations'].append(dict(key=data['key'], desc='instance %d diverges from its solo trace' % i))
    return out


def finish(agg, tier, seed):
    c = agg['counters']
    inc = []
    if any(k.startswith('child_failed') for k in c):
        inc.append('forked scenario children failed: %s' % {k: v for k, v in c.items() if k.startswith('child_failed')})
    for k in ('replay_runs', 'history_runs', 'isolation_runs_same_cfg', 'isolation_runs_diff_cfg', 'schedules_enumerated'):
        if c.get(k, 0) < 50:
            inc.append('too few %s (%d)' % (k, c.get(k, 0)))
    if c.get('aged_steps_compared', 0) < 5000:
        inc.append('too few aged-vs-fresh step comparisons (%d)' % c.get('aged_steps_compared', 0))
    return dict(inconclusive=inc, coverage=dict(
        exhaustive_subspaces=['all 70 interleavings of (create, reset, step, step) x 2 instances, per program pair'],
        explanation='schedules enumerated completely only for the 2 x 4-event shape; programs sampled'))
