"""C19 — privilege confinement.  Reference-free: E1 diff of a real User-mode step must stay inside
the unprivileged location set, or the post-state must be an architectural exception entry.  Plus the
unprivileged load/store variants executed in privileged modes: the translation they request must be
an unprivileged one and a privileged-only region must abort them."""
import random
from vf.common import use_repo, rng_for
use_repo()

ID = 'C19'
LEVEL = 'exploration'
RULE = ('case = one real step in User mode on (word, set, IT position, secure/non-secure, configuration, MPU/MMU '
        'on/off) with every banked/system register pre-filled with random values; words: all 2^16 Thumb-16 words, '
        'solved members of every ARM/Thumb-32 decoder path, random words, 5-instruction sequences; the full state '
        'diff is judged. Second part: LDRT/STRT-family words built from the architecture encodings executed in '
        'privileged modes on a privileged-only MPU region. every system-level / bank-naming instruction row with all mode numbers, masks and P/U/W values x registers {0,1,SP,LR,PC} in User mode; LDRT/STRT-family also unaligned, straddling the protected region, with the SP as base, and on addresses only the background region covers (SCTLR.BR = 1, no covering region); with the MMU on (short- and long-descriptor tables) on pages reserved for privileged code by the AP bits of the leaf or by APTable<0> of a level-1 table descriptor above two further levels. non-trivial = the step changed something besides the PC '
        'or took an exception; distinct = (set, path id / word>>4, outcome class, context)')
ASSUMPTIONS = ['the unprivileged location set: R0-R14_usr, PC, APSR.NZCVQ/GE, CPSR.E/IT/T/J, event register, wait '
               'flags, memory the harness mapped as user-writable',
               'harness-programmed MPU regions / page tables define which physical bytes User mode may write']
SHARD_TIMEOUT = {'quick': 900, 'thorough': 7200}

CTXS = [('v6-pmsa-sec', 'off'), ('v6-pmsa-sec', 'mpu'), ('v7-pmsa-r', 'mpu'), ('v7-vmsa-sec', 'off'),
        ('v7-vmsa-sec', 'mmu'), ('v7-vmsa-virt', 'off'), ('v5-pmsa', 'off'), ('v6-vmsa', 'mmu'), ('v7-vmsa-virt-impdef', 'off')]

USER_REGS = {'R%dusr' % i for i in range(13)} | {'SPusr', 'LRusr', 'PC', 'event_register', 'wfe', 'wfi'}
CPSR_USER_MASK = 0xF8000000 | 0x06000000 | 0x0000FC00 | (1 << 24) | 0x000F0000 | (1 << 9) | (1 << 5)
EXC_MODES = {0b11011: ('und', 'spsr_und', 'LRund', [4]), 0b10011: ('svc', 'spsr_svc', 'LRsvc', [8]),
             0b10111: ('abt', 'spsr_abt', 'LRabt', [0x10, 0x0C]), 0b10110: ('mon', 'spsr_mon', 'LRmon', [8]),
             0b11010: ('hyp', 'spsr_hyp', 'elr_hyp', [0x14, 4, 8, 0x10])}


def plan(tier, seed):
    q = tier == 'quick'
    specs = []
    nt16 = 8 if q else 32
    for i in range(nt16):
        specs.append(dict(kind='t16', seed=seed, shard=i, lo=i * (65536 // nt16), hi=(i + 1) * (65536 // nt16),
                          reps=1 if q else 8))
    npath = 16 if q else 64
    for i in range(npath):
        specs.append(dict(kind='paths', seed=seed, shard=i, of=npath, per_path=100 if q else 5000))
    for i in range(6 if q else 32):
        specs.append(dict(kind='random', seed=seed, shard=i, n=6000 if q else 150000))
    for i in range(4 if q else 16):
        specs.append(dict(kind='seq', seed=seed, shard=i, n=600 if q else 20000))
    for i in range(2 if q else 8):
        specs.append(dict(kind='unpriv', seed=seed, shard=i, n=3000 if q else 60000))
        specs.append(dict(kind='unpriv-vmsa', seed=seed, shard=i, n=1200 if q else 30000))
    for i in range(4 if q else 16):
        specs.append(dict(kind='sysrows', seed=seed, shard=i, of=4 if q else 16, cap=1200 if q else 40000))
    return specs


class Mon:
    def __init__(self, spec):
        from vf import scen
        self.scen = scen
        self.ctxs = {}
        self.res = dict(evaluations=0, nontrivial=set(), counters={}, violations=[], samples=[], sets={'contexts': set()})
        self.viol = {}
        self.rng = rng_for('C19', spec['kind'], spec['seed'], spec['shard'])

    def ctx(self, key):
        if key not in self.ctxs:
            self.ctxs[key] = self.scen.Ctx(*key)
        return self.ctxs[key]

    def bump(self, k, n=1):
        c = self.res['counters']
        c[k] = c.get(k, 0) + n

    def report(self, key, desc, replay):
        if key not in self.viol:
            self.viol[key] = dict(key=key, desc=desc, replay=replay, count=0)
        self.viol[key]['count'] += 1

    def setup_user(self, kind, word, itpos=None, ctxkey=None):
        rng = self.rng
        scen = self.scen
        ctxkey = ctxkey or CTXS[rng.randrange(len(CTXS))]
        ctx = self.ctx(ctxkey)
        ns = rng.randrange(2) if ctx.cfg['have_security_ext'] else 0
        if itpos is None:
            itpos = 'out' if kind == 'arm' else rng.choice(scen.IT_POSITIONS)
        desc = scen.prepare(ctx, rng, kind, word, mode='usr', itpos=itpos, ns=ns, e=(rng.random() < 0.15))
        r = ctx.cpu.registers
        # exception plumbing randomised so that "at that exception's vector" is a real check
        r.sctlr.v = 1 if rng.random() < 0.3 else 0
        r.vbar.value = rng.choice([0, 0x100, 0x7000, 0x11000, 0xFFFFF000])
        r.mvbar = rng.choice([0, 0x200, 0x11800])
        r.hvbar = rng.choice([0, 0x300, 0x11400])
        if ctx.cfg['have_virt_ext'] and ns and ctx.prot == 'off':
            r.hcr.tge = rng.randrange(2)
        if ctx.cfg['have_virt_ext'] and ns and rng.random() < 0.5:
            # the hypervisor's trap controls: whatever they trap goes to Hyp mode at the Hyp Trap vector, nowhere else
            # (HSTR.T<n> / TJDBX / TTEE, HCR.TWI / TWE / TSC / TIDCP / TID<n> / TAC / TSW / TPC / TPU / TTLB / TVM, HCPTR)
            r.hstr.value = rng.getrandbits(32) & 0x0003BFEF if rng.random() < 0.7 else (1 << 17)
            r.hcr.value = (r.hcr.value & (1 << 27)) | (rng.getrandbits(32) & 0x07FFE000 & ~(1 << 27))
            r.hcptr.value = rng.getrandbits(32) & 0x80103FFF | 0x000033FF & rng.getrandbits(32)
            desc['hyp_traps'] = dict(hstr='%#x' % r.hstr.value, hcr='%#x' % r.hcr.value, hcptr='%#x' % r.hcptr.value)
        if ctx.cfg['have_security_ext'] and rng.random() < 0.5:
            # the Secure configuration bits that gate what User code can reach (SCD disables SMC, HCE enables HVC, the
            # routing bits): none of them may open a way out of User mode other than an architectural exception
            r.scr.value = (r.scr.value & 1) | (rng.getrandbits(9) << 1)
            desc['scr'] = '%#x' % r.scr.value
        if rng.random() < 0.3:
            r.sctlr.nmfi = 1              # non-maskable FIQs configured: "F can be cleared but never set" - by privileged code
            desc['nmfi'] = 1
        desc['v'] = r.sctlr.v
        return ctx, desc, ns

    def judge_user_step(self, ctx, desc, pre, post, k, sig, tag):
        """The oracle.  pre/post are E1 snapshots around one real step that started in User mode."""
        from vf import observe
        cfg = ctx.cfg
        ch = observe.diff(pre, post)
        mode = post['cpsr'] & 0x1F
        kind = desc['kind']
        executed = type(ctx.cpu.executed_opcode).__name__
        mech = None
        if mode == 0b10000:
            bad = set()
            for name in ch:
                if name in USER_REGS:
                    continue
                if name == 'cpsr':
                    if (pre['cpsr'] ^ post['cpsr']) & ~CPSR_USER_MASK & 0xFFFFFFFF:
                        bad.add('cpsr:%#x' % ((pre['cpsr'] ^ post['cpsr']) & ~CPSR_USER_MASK & 0xFFFFFFFF))
                    continue
                if name.startswith('memgeom'):
                    bad.add(name)
                    continue
                if name.startswith('mem'):
                    i = int(name[3:])
                    b0 = pre['memgeom%d' % i][0]
                    for lo, hi in self.scen.USER_PROTECTED[ctx.prot]:
                        a, z = max(lo, b0) - b0, min(hi, pre['memgeom%d' % i][1]) - b0
                        if a < z and pre[name][a:z] != post[name][a:z]:
                            bad.add('protected-memory')
                    continue
                bad.add(name)
            outcome = 'stay-user' + ('' if k == 'ok' else '-' + k)
            if bad:
                mech = 'user-step-changed|%s|%s' % (executed, ','.join(sorted(bad))[:80])
        else:
            outcome = 'exc-%05d' % int(format(mode, 'b'))
            if mode not in EXC_MODES:
                mech = 'left-user-to-non-exception-mode|%s|%s' % (executed, format(mode, '05b'))
            elif mode == 0b10110:
                # no instruction executed in User mode enters Monitor mode: SMC is UNDEFINED there whatever SCR holds, and the
                # other routes (external aborts, interrupts routed by SCR) are not taken by a lone instruction step
                mech = 'user-instruction-entered-monitor-mode|%s' % executed
            else:
                mname, spsr, lr, offsets = EXC_MODES[mode]
                if mode == 0b11010:
                    base = pre['hvbar']
                elif mode == 0b10110:
                    base = pre['mvbar']
                elif pre['sctlr'] & (1 << 13):
                    base = 0xFFFF0000
                elif cfg['have_security_ext']:
                    base = pre['vbar']
                else:
                    base = 0
                allowed = {'cpsr', 'PC', spsr, lr, 'dfsr', 'dfar', 'hsr', 'hdfar', 'hpfar'}
                extra = {n for n in ch if n not in allowed and not n.startswith('mem') and n not in USER_REGS} \
                    if k == 'ok' else set()
                # registers of the user bank may have been legitimately written before a later abort
                why = []
                if (post[spsr] & 0x1F) != 0b10000:
                    why.append('SPSR.M=%s' % format(post[spsr] & 0x1F, '05b'))
                if all(post['PC'] != ((base + o) & 0xFFFFFFFF) for o in offsets):
                    why.append('PC=%#x not a %s vector (base %#x)' % (post['PC'], mname, base))
                if extra:
                    why.append('also changed ' + ','.join(sorted(extra)))
                if mode == 0b10110 and not cfg['have_security_ext'] or mode == 0b11010 and not cfg['have_virt_ext']:
                    why.append('mode not implemented in this configuration')
                if why:
                    mech = 'bad-exception-entry|%s|%s|%s' % (mname, executed, ';'.join(w.split('=')[0].split(' ')[0] for w in why))
                    desc = dict(desc, why=why)
        self.res['evaluations'] += 1
        self.bump('outcome_' + outcome)
        if ch - {'PC'}:
            self.res['nontrivial'].add('%s|%s|%s|%s/%s' % (kind, tag, outcome, ctx.cfgname, ctx.prot))
        if mech:
            self.report('C19|' + mech, dict(desc, changed=sorted(ch)[:12]), desc)
        return outcome

    def one_user(self, kind, word, tag, itpos=None):
        from vf import observe
        ctx, desc, ns = self.setup_user(kind, word, itpos)
        pre = observe.snapshot(ctx.cpu)
        k, sig = self.scen.step(ctx.cpu)
        post = observe.snapshot(ctx.cpu)
        self.res['sets']['contexts'].add('%s/%s/%s/ns%d' % (ctx.cfgname, ctx.prot, kind, ns))
        out = self.judge_user_step(ctx, desc, pre, post, k, sig, tag)
        if len(self.res['samples']) < 3 and self.rng.random() < 0.005:
            self.res['samples'].append(dict(desc, outcome=out))


UNPRIV = {
    'arm': [('LDRT_A1', 0x04300000, 0x0FFF), ('STRT_A1', 0x04200000, 0x0FFF), ('LDRBT_A1', 0x04700000, 0x0FFF),
            ('STRBT_A1', 0x04600000, 0x0FFF), ('LDRT_A2', 0x06300000, 0x0FEF), ('STRT_A2', 0x06200000, 0x0FEF),
            ('LDRBT_A2', 0x06700000, 0x0FEF), ('STRBT_A2', 0x06600000, 0x0FEF),
            ('LDRHT_A1', 0x007000B0, 0x0F0F), ('STRHT_A1', 0x006000B0, 0x0F0F), ('LDRSBT_A1', 0x007000D0, 0x0F0F),
            ('LDRSHT_A1', 0x007000F0, 0x0F0F), ('LDRHT_A2', 0x003000B0, 0x000F), ('STRHT_A2', 0x002000B0, 0x000F),
            ('LDRSBT_A2', 0x003000D0, 0x000F), ('LDRSHT_A2', 0x003000F0, 0x000F)],
    't32': [('LDRT_T1', 0xF8500E00, 0xFF), ('STRT_T1', 0xF8400E00, 0xFF), ('LDRBT_T1', 0xF8100E00, 0xFF),
            ('STRBT_T1', 0xF8000E00, 0xFF), ('LDRHT_T1', 0xF8300E00, 0xFF), ('STRHT_T1', 0xF8200E00, 0xFF),
            ('LDRSBT_T1', 0xF9100E00, 0xFF), ('LDRSHT_T1', 0xF9300E00, 0xFF)],
}


def unpriv(mon, spec):
    """LDRT/STRT family in privileged modes: every data translation they ask for must be unprivileged, and on a
    privileged-only region they must abort without transferring data."""
    from vf import observe, machine as M
    from armulator.armv6.arm_v6 import ArmV6
    rng = mon.rng
    log = []
    orig = ArmV6.translate_address

    def spy(self, va, ispriv, iswrite, size, wasaligned):
        log.append((va, bool(ispriv), bool(iswrite)))
        return orig(self, va, ispriv, iswrite, size, wasaligned)
    ArmV6.translate_address = spy
    try:
        for i in range(spec['n']):
            kind = rng.choice(['arm', 't32'])
            name, base, immmask = rng.choice(UNPRIV[kind])
            ctxkey = rng.choice([('v6-pmsa-sec', 'mpu'), ('v7-pmsa-r', 'mpu'), ('v6-pmsa', 'mpu')])
            ctx = mon.ctx(ctxkey)
            ns = rng.randrange(2) if ctx.cfg['have_security_ext'] else 0
            mode = rng.choice([m for m in ctx.legal_modes(ns) if m != 'usr'])
            rn, rt, rm = rng.sample([0, 1, 2, 3, 4, 5, 6, 7, 8, 9, 10, 11, 12, 14], 3)
            if rng.random() < 0.2:
                rn = 13                      # the SP as base (next to the POP / PUSH alias encodings)
            protected = rng.random() < 0.6
            is_store = name.startswith('STR')
            # a third of the cases: no all-covering region; privileged code runs from the background map (SCTLR.BR = 1), and
            # the target lies in NO region (or in a disabled sub-region): an unprivileged access must take a background fault
            background = rng.random() < 0.3
            if background:
                protected = True
                target = rng.choice([0x100, 0x104, 0x4000, 0x5000, 0x101, 0x6000, 0x6804, 0x6FFC, 0x3000, 0x10800, 0x11000, 0x117FC])
            elif protected:
                # aligned, unaligned (byte-wise path of MemU) and straddling the boundary of the privileged-only region;
                # for stores also the privileged-RW / user-RO region at 0x11800
                target = rng.choice([0x1000, 0x1004, 0x1800, 0x1FF0, 0x1001, 0x1002, 0x1003, 0x17FE, 0x1FF1, 0x0FFE, 0x0FFF, 0x0FFD])
                if is_store and rng.random() < 0.25:
                    target = rng.choice([0x11800, 0x11801, 0x11802, 0x11C03, 0x117FE, 0x117FF])
                if name[:5] in ('LDRBT', 'STRBT', 'LDRSB') and target in (0x0FFE, 0x0FFF, 0x0FFD, 0x117FE, 0x117FF):
                    target = 0x1003
                if name[:5] in ('LDRHT', 'STRHT', 'LDRSH') and target in (0x0FFE, 0x0FFD, 0x117FE):
                    target += 1 if target != 0x0FFD else 2
            else:
                target = rng.choice([0x100, 0x4000, 0x5000]) if is_store or rng.random() < 0.5 else 0x2004
            if rn == 13:
                # the SP is kept word aligned by the state generator: use word-aligned targets that stay inside the intended area
                if background:
                    target = rng.choice([0x100, 0x104, 0x4000, 0x5000, 0x6000, 0x6804, 0x3000, 0x10800, 0x11000])
                elif protected:
                    target = rng.choice([0x1000, 0x1004, 0x1800, 0x1FF0] + ([0x11800, 0x11C00] if is_store else []))
                else:
                    target &= ~3
            imm = rng.choice([0, 0, 4, 8]) & immmask
            w = base | imm
            regs = [None] * 15
            if kind == 'arm':
                u = rng.randrange(2)
                w |= 0xE0000000 | (u << 23) | (rn << 16) | (rt << 12)
                if name.endswith('A2'):
                    w = (w & ~0xF) | rm
                    regs[rm] = 0          # offset register zero: post-indexed anyway
                if name in ('LDRHT_A1', 'STRHT_A1', 'LDRSBT_A1', 'LDRSHT_A1'):
                    w = (w & ~0xF0F) | ((imm & 0xF)) | (((imm >> 4) & 0xF) << 8)
                regs[rn] = target        # ARM forms are post-indexed: the access is at Rn
            else:
                w |= (rn << 16) | (rt << 12)
                regs[rn] = (target - imm) & 0xFFFFFFFF
            desc = mon.scen.prepare(ctx, rng, kind, w, mode=mode, itpos='out', ns=ns, regs=regs)
            desc['insn'] = name
            if background:
                ctx.cpu.registers.drsrs[0].en = 0
                ctx.cpu.registers.sctlr.br = 1
                desc['background_region_case'] = True
            if ctx.cfg['arch_version'] == 6:
                ctx.cpu.registers.sctlr.u = 1 if rng.random() < 0.7 else 0
            ctx.cpu.registers.sctlr.a = 1 if rng.random() < 0.1 else 0
            desc['sctlr_a_u'] = (ctx.cpu.registers.sctlr.a, ctx.cpu.registers.sctlr.u)
            if ctx.cfg['arch_version'] < 7 and not ctx.cpu.registers.sctlr.a and not ctx.cpu.registers.sctlr.u:
                # legacy alignment model: the access is made at the aligned-down address
                size = 1 if name[3:5] in ('BT', 'SB') else (2 if name[3:5] in ('HT', 'SH') else 4)
                eff = target & ~(size - 1)
                if protected and not background and not (0x1000 <= eff < 0x2000 or 0x11800 <= eff < 0x12000):
                    protected = False
            pre = observe.snapshot(ctx.cpu)
            del log[:]
            k, sig = mon.scen.step(ctx.cpu)
            post = observe.snapshot(ctx.cpu)
            mon.res['evaluations'] += 1
            data_tr = [t for t in log if t[0] != mon.scen.CODE and t[0] != mon.scen.CODE + 2]
            if k != 'ok' or not data_tr:
                mon.bump('unpriv_no_data_access')     # UNPREDICTABLE register choice etc.
                continue
            mon.res['nontrivial'].add('unpriv|%s|%s|%s' % (name, mode, 'prot' if protected else 'open'))
            if any(p for (_, p, _) in data_tr):
                mon.report('C19|unpriv-variant-translated-privileged|%s' % name, dict(desc, translations=data_tr[:4]), desc)
            if protected:
                mon.bump('unpriv_on_protected')
                if (post['cpsr'] & 0x1F) != 0b10111:
                    mon.report('C19|unpriv-variant-not-aborted-on-privileged-only-region|%s' % name, desc, desc)
                elif background and any(pre[m_] != post[m_] for m_ in ('mem0', 'mem1', 'mem3')):
                    mon.report('C19|unpriv-variant-stored-despite-abort|%s|background' % name, desc, desc)
                elif pre['mem0'][0x1000:0x3000] != post['mem0'][0x1000:0x3000] or pre['mem1'][0x1800:0x2000] != post['mem1'][0x1800:0x2000]:
                    mon.report('C19|unpriv-variant-stored-despite-abort|%s' % name, desc, desc)
                if target & 3:
                    mon.bump('unpriv_unaligned_on_protected')
                if background:
                    mon.bump('unpriv_on_background_only_address')
            else:
                mon.bump('unpriv_on_open')
    finally:
        ArmV6.translate_address = orig


# virtual addresses that only privileged code may access, per translation context (vf/scen.py _program_mmu / _program_mmu_ld):
# a privileged-only section alias and small page; a privileged-only 2 MB block and page of the long-descriptor layout and the
# window whose LEVEL-1 table descriptor removes PL0 access (APTable<0>) from pages that would otherwise allow it
VMSA_PRIV_ONLY = {
    ('v7-vmsa-sec', 'mmu'): [0x00100100, 0x00100104, 0x00101001, 0x00201004, 0x00201802, 0x00201FF0],
    ('v6-vmsa', 'mmu'): [0x00100100, 0x00100104, 0x00101001, 0x00201004, 0x00201802, 0x00201FF0],
    ('v7-vmsa-virt', 'mmu-ld'): [0x40000100, 0x40000104, 0x40001001, 0x40002FF0, 0x4000F802, 0x600100, 0x600104, 0x601003, 0x1004, 0x1801],
}


def unpriv_vmsa(mon, spec):
    """the unprivileged load/store variants in privileged modes with the MMU on: on a virtual address that the page tables
    reserve for privileged code (by the leaf's AP bits or by a table descriptor higher up) they abort and store nothing"""
    from vf import observe
    rng = mon.rng
    for i in range(spec['n']):
        kind = rng.choice(['arm', 't32'])
        name, base, immmask = rng.choice(UNPRIV[kind])
        ctxkey = rng.choice(list(VMSA_PRIV_ONLY))
        ctx = mon.ctx(ctxkey)
        ns = rng.randrange(2) if ctx.cfg['have_security_ext'] else 0
        mode = rng.choice([m for m in ctx.legal_modes(ns) if m not in ('usr', 'hyp')])
        rn, rt, rm = rng.sample([0, 1, 2, 3, 4, 5, 6, 7, 8, 9, 10, 11, 12, 14], 3)
        target = rng.choice(VMSA_PRIV_ONLY[ctxkey])
        if name[3:5] in ('HT', 'SH'):
            target &= ~1
        imm = rng.choice([0, 0, 4, 8]) & immmask
        w = base | imm
        regs = [None] * 15
        if kind == 'arm':
            w |= 0xE0000000 | (rng.randrange(2) << 23) | (rn << 16) | (rt << 12)
            if name.endswith('A2'):
                w = (w & ~0xF) | rm
                regs[rm] = 0
            if name in ('LDRHT_A1', 'STRHT_A1', 'LDRSBT_A1', 'LDRSHT_A1'):
                w = (w & ~0xF0F) | (imm & 0xF) | (((imm >> 4) & 0xF) << 8)
            regs[rn] = target
        else:
            w |= (rn << 16) | (rt << 12)
            regs[rn] = (target - imm) & 0xFFFFFFFF
        desc = mon.scen.prepare(ctx, rng, kind, w, mode=mode, itpos='out', ns=ns, regs=regs)
        desc['insn'] = name
        r = ctx.cpu.registers
        if ctx.cfg['arch_version'] >= 7:
            r.sctlr.u = 1
        elif ctx.cfg['arch_version'] == 6:
            r.sctlr.u = 1 if rng.random() < 0.7 else 0
        if ctx.cfg['arch_version'] < 7 and not r.sctlr.u:
            target &= ~3
        pre = observe.snapshot(ctx.cpu)
        k, sig = mon.scen.step(ctx.cpu)
        post = observe.snapshot(ctx.cpu)
        mon.res['evaluations'] += 1
        if k != 'ok' or type(ctx.cpu.executed_opcode).__name__ == 'NoneType':
            mon.bump('unpriv_vmsa_not_executed')
            continue
        mon.bump('unpriv_vmsa_on_protected')
        mon.res['nontrivial'].add('unpriv-vmsa|%s|%s|%s|%#x' % (name, ctxkey[1], mode, target >> 12))
        if (post['cpsr'] & 0x1F) != 0b10111:
            mon.report('C19|unpriv-variant-not-aborted-on-privileged-only-page|%s|%s' % (name, ctxkey[1]), dict(desc, target='%#x' % target), desc)
        elif any(pre[m_] != post[m_] for m_ in pre if m_.startswith('mem')):
            mon.report('C19|unpriv-variant-stored-despite-abort|%s|%s' % (name, ctxkey[1]), dict(desc, target='%#x' % target), desc)


def run_shard(spec):
    from vf import trace_decode as td, observe, machine as M
    mon = Mon(spec)
    rng = mon.rng
    kind = spec['kind']
    if kind == 't16':
        for w in range(spec['lo'], spec['hi']):
            if (w >> 11) in (0b11101, 0b11110, 0b11111):
                continue
            for _ in range(spec['reps']):
                mon.one_user('t16', w, 'w%03x' % (w >> 4))
        mon.bump('t16_words_covered', spec['hi'] - spec['lo'])
    elif kind == 'paths':
        cubes, info = td.all_paths(random.Random(spec['seed']))
        for name in ('arm', 't32'):
            if not (info[name]['complete'] and info[name]['partition_ok']):
                mon.bump('path_enumeration_incomplete')
            mon.bump('paths_total_' + name, len(cubes[name]) if spec['shard'] == 0 else 0)
            for pi, (m, v, ds, out, wit) in enumerate(cubes[name]):
                if pi % spec['of'] != spec['shard'] or out.startswith('#'):
                    continue
                mon.bump('paths_visited_' + name)
                for j in range(spec['per_path']):
                    w = wit if j == 0 else td.sample(m, v, ds, 32, rng)
                    if w is not None:
                        mon.one_user(name, w, 'p%d' % pi)
    elif kind == 'random':
        for i in range(spec['n']):
            k = ('arm', 't32', 't16')[i % 3]
            if k == 'arm':
                w = rng.getrandbits(32)
            elif k == 't32':
                w = (rng.choice([0b11101, 0b11110, 0b11111]) << 27) | rng.getrandbits(27)
            else:
                w = rng.getrandbits(16)
                if (w >> 11) in (0b11101, 0b11110, 0b11111):
                    w &= 0x7FFF
            mon.one_user(k, w, 'r%d' % (w >> (26 if k != 't16' else 10)))
    elif kind == 'sysrows':
        # every system-level / bank-naming instruction of the reference tables (SRS, RFE, CPS, MSR, MRS, exception returns,
        # LDM/STM user registers, SMC, coprocessor accesses, SETEND, hints) in User mode, with ALL values of its narrow fields
        # (mode numbers, masks, P/U/W) x registers {0, 1, SP, LR, PC}: whatever such an instruction does in User mode -
        # UNPREDICTABLE included - it must not reach another mode's registers or privileged state
        import itertools
        from vf.props import _decode as D
        from vf.ref.step import tables
        SYS = ('srs', 'rfe', 'cps', 'msr_sys', 'msr_app', 'mrs', 'subs_pc_lr', 'subs_pc_lr_thumb', 'eret', 'ldm_user', 'stm_user', 'ldm_eret',
               'smc', 'svc', 'cp', 'setend', 'wfe', 'wfi', 'sev', 'bkpt', 'bxj', 'enterx')
        for kname, table in tables().items():
            rows = [r for r in table.rows if r.sem and r.sem.split(':')[0] in SYS]
            for ri, row in enumerate(rows):
                if ri % spec['of'] != spec['shard']:
                    continue
                letters = list(row.fields)
                cands = [D.field_candidates(ch, len(row.fields[ch]), row) if len(row.fields[ch]) != 5 else list(range(32))
                         for ch in letters]
                total = 1
                for c in cands:
                    total *= len(c)
                combos = itertools.product(*cands) if total <= spec['cap'] else (tuple(rng.choice(c) for c in cands) for _ in range(spec['cap']))
                free = ~(row.mask | row.sb_mask) & ((1 << row.width) - 1)
                for bits_ in row.fields.values():
                    for b in bits_:
                        free &= ~(1 << b)
                for combo in combos:
                    w = row.value | row.sb_value
                    for ch, v in zip(letters, combo):
                        bits_ = row.fields[ch]
                        kk = len(bits_)
                        for i_, b in enumerate(bits_):
                            if (v >> (kk - 1 - i_)) & 1:
                                w |= 1 << b
                    w |= rng.getrandbits(row.width) & free
                    mon.bump('sysrow_words')
                    mon.one_user(kname, w, 'sys-' + row.name)
    elif kind == 'seq':
        for i in range(spec['n']):
            thumb = rng.random() < 0.5
            ctx, desc, ns = mon.setup_user('t16' if thumb else 'arm', 0xBF00 if thumb else 0xE1A00000, itpos='out')
            blob = bytes(rng.getrandbits(8) for _ in range(64))
            M.poke(ctx.cpu, mon.scen.CODE, blob)
            desc['program'] = blob.hex()
            for s in range(5):
                if (ctx.cpu.registers.cpsr.m != 0b10000 or ctx.cpu.registers.cpsr.j or
                        not (mon.scen.CODE <= ctx.cpu.registers.pc_store_value() < mon.scen.CODE + 60)):
                    break
                pre = observe.snapshot(ctx.cpu)
                k, sig = mon.scen.step(ctx.cpu)
                post = observe.snapshot(ctx.cpu)
                d2 = dict(desc, step=s, kind='t16' if pre['cpsr'] & 0x20 else 'arm')
                mon.judge_user_step(ctx, d2, pre, post, k, sig, 'seq%d' % s)
                if k != 'ok':
                    break
    elif kind == 'unpriv':
        unpriv(mon, spec)
    elif kind == 'unpriv-vmsa':
        unpriv_vmsa(mon, spec)
    mon.res['violations'] = list(mon.viol.values())
    return mon.res


def replay(data):
    from vf import observe
    rp = data['replay']
    mon = Mon(dict(kind='replay', seed=0, shard=0))
    ctx = mon.ctx(tuple(rp['ctx']))
    regs = [int(x, 16) for x in rp['regs']]
    mon.scen.prepare(ctx, random.Random(1), rp['kind'], int(rp['word'], 16), mode=rp['mode'], ns=rp['ns'], regs=regs)
    ctx.cpu.registers.cpsr.value = int(rp['cpsr'], 16)
    ctx.cpu.registers.sctlr.v = rp.get('v', 0)
    if rp.get('scr'):
        ctx.cpu.registers.scr.value = int(rp['scr'], 16)
    pre = observe.snapshot(ctx.cpu)
    k, sig = mon.scen.step(ctx.cpu)
    post = observe.snapshot(ctx.cpu)
    if rp['mode'] == 'usr':
        mon.judge_user_step(ctx, rp, pre, post, k, sig, 'replay')
    return dict(evaluations=1, violations=list(mon.viol.values()))


def finish(agg, tier, seed):
    inc = []
    c = agg['counters']
    if c.get('t16_words_covered', 0) != 65536:
        inc.append('Thumb-16 space not covered completely')
    if c.get('path_enumeration_incomplete', 0):
        inc.append('decoder path enumeration incomplete')
    if c.get('sysrow_words', 0) < 5000:
        inc.append('too few system-instruction words in User mode (%d)' % c.get('sysrow_words', 0))
    if c.get('unpriv_on_background_only_address', 0) < 100:
        inc.append('too few unprivileged-variant accesses to addresses only the background region covers (%d)' % c.get('unpriv_on_background_only_address', 0))
    if c.get('unpriv_unaligned_on_protected', 0) < 100:
        inc.append('too few unaligned unprivileged-variant accesses on the protected region (%d)' % c.get('unpriv_unaligned_on_protected', 0))
    if c.get('unpriv_on_protected', 0) < 200:
        inc.append('too few unprivileged-variant accesses on the protected region (%d)' % c.get('unpriv_on_protected', 0))
    if sum(v for k, v in c.items() if k.startswith('outcome_exc')) < 500:
        inc.append('too few exception entries observed')
    return dict(inconclusive=inc, coverage=dict(
        exhaustive_subspaces=['all 2^16 Thumb-16 words stepped in User mode'],
        explanation='exhaustive only for the sub-space named'))
