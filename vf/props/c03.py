"""C03 — block transfers and stack operations: lock-step against the reference (LDM/STM in four addressing
modes, PUSH/POP, user-bank and exception-return forms, SRS/RFE) plus a reference-free PUSH;POP / STM;LDM
round-trip monitor on the real CPU."""
import random
from vf.props import _lock as L
from vf.common import rng_for

ID = 'C03'
LEVEL = 'exploration'
SHARD_TIMEOUT = L.SHARD_TIMEOUT
FAMILY = ('ldm', 'stm', 'push', 'pop', 'ldm_user', 'stm_user', 'ldm_eret', 'srs', 'rfe')
RULE = ('lock-step: case = (word from a reference row of LDM/STM IA/IB/DA/DB, PUSH/POP, LDM/STM (user), LDM (exception '
        'return), SRS, RFE in ARM and Thumb; register lists random, single-bit, full, with base/SP/PC in the list), base '
        'addresses at 0x8, mid-RAM and next to 2^32 (wrap both ways), with the protection unit on across the edges of its regions (a middle or last word of the block aborts), all privileged modes, valid SPSRs; every register '
        'and memory byte compared (exact address range = byte-exact memory diff). round-trip: PUSH list ; clobber ; POP '
        'list (and STMDB r!,list ; LDMIA r!,list) on the real CPU must restore every listed register and the base; in the '
        'thorough tier all 2^16 lists are enumerated for the 16-bit-list encodings. non-trivial = a register or memory '
        'changed; distinct = (row, IT position, configuration) or (round-trip encoding pair, list)')
ASSUMPTIONS = ['vf/ref/sem_mem.py transcribes the block-transfer pseudocode; UNKNOWN values (base in list with write-back, '
               'stored base, registers of an aborted LDM) are not compared']
CTXS = [('v7-pmsa-r', 'off'), ('v6-pmsa-sec', 'off'), ('v7-vmsa-sec', 'off'), ('v5-pmsa', 'off'), ('v7-vmsa-virt', 'off'), ('v4-pmsa', 'off'),
        ('v6-pmsa-sec', 'mpu'), ('v7-pmsa-r', 'mpu')]
# (protection unit on: blocks placed across the edges of the harness's regions - vf/scen.py _program_mpu - so that a word in
# the MIDDLE or the LAST word of a transfer is the one that aborts: "the specified final value" of the base is then its
# original value, and nothing listed after the faulting word has been transferred)
MPU_EDGES = [0x1000, 0x2000, 0x3000, 0x11800, 0x12000, 0x6000, 0x7000]
BASES = [0x8, 0x10, 0x40, 0x1000, 0x7FC0, 0x11000, 0x11FC0, 0xFFFFF800, 0xFFFFFFC0, 0xFFFFFFF0, 0xFFFFFFF8, 0x0, 0x4]


def regs(rng):
    from vf import scen
    out = [rng.choice(BASES) if rng.random() < 0.8 else scen.reg_value(rng) for _ in range(15)]
    return out


def after(ctx, rng, desc):
    r = ctx.cpu.registers
    if ctx.cfg['arch_version'] >= 7:
        r.sctlr.u = 1
    if ctx.prot == 'mpu':
        if rng.random() < 0.5 and not desc.get('mon_ns1'):
            # half of these cases in User mode: the privileged-only region (0x1000..0x1FFF) then denies loads as well
            r.cpsr.m = 0b10000
            desc['mode'] = 'usr'
        edges = [0x1000, 0x1000, 0x1000, 0x2000] + MPU_EDGES
        for n in range(15):
            if rng.random() < 0.75:
                r.set(n, (rng.choice(edges) + 4 * rng.randrange(-6, 3)) & 0xFFFFFFFF)
        desc['cpsr'] = '%#010x' % r.cpsr.value
        desc['regs'] = ['%#x' % r.get(n) for n in range(15)]


def plan(tier, seed):
    specs = L.plan_rows(ID, FAMILY, tier, seed, 500, 30000)
    q = tier == 'quick'
    n = 4 if q else 32
    for i in range(n):
        specs.append(dict(kind='roundtrip', seed=seed, shard=i, of=n, exhaustive=not q, n=2500))
    return specs


def run_shard(spec):
    if spec['kind'] == 'roundtrip':
        return roundtrip(spec)
    return L.run_rows(ID, spec, FAMILY, ctxs=CTXS, regs_fn=regs, after=after, solve_addr=0.15)


def roundtrip(spec):
    from vf import lockstep, scen, machine as M, observe
    rng = rng_for(ID, 'rt', spec['seed'], spec['shard'])
    ls = lockstep.LockStep(ID, rng)
    if spec['exhaustive']:
        lists = [m for m in range(1, 1 << 16) if m % spec['of'] == spec['shard']]
    else:
        lists = [rng.choice([1 << rng.randrange(13), rng.getrandbits(13), rng.getrandbits(16), 0x1FFF, 0x5FFF, 0x00FF])
                 for _ in range(spec['n'])]
    for mask in lists:
        for variant in ('push_pop_arm', 'push_pop_t32', 'push_pop_t16', 'stmdb_ldmia_arm', 'stmdb_ldmia_t32'):
            m = mask
            if variant == 'push_pop_t16':
                m &= 0xFF
            elif variant.endswith('t32'):
                m &= 0x5FFF
            m &= ~((1 << 13) | (1 << 15))               # lists without SP / PC
            base_reg = 13
            if variant.startswith('stmdb'):
                base_reg = rng.choice([r for r in range(13) if not (m >> r) & 1] or [13])
                if base_reg == 13 and variant.endswith('t32'):
                    continue
            if bin(m).count('1') < (2 if variant.endswith('t32') else 1):
                continue
            if variant == 'push_pop_arm':
                w1, w2, kind = 0xE92D0000 | m, 0xE8BD0000 | m, 'arm'
                if bin(m).count('1') < 2:
                    continue
            elif variant == 'push_pop_t32':
                w1, w2, kind = 0xE92D0000 | m, 0xE8BD0000 | m, 't32'
            elif variant == 'push_pop_t16':
                w1, w2, kind = 0xB400 | m, 0xBC00 | m, 't16'
            elif variant == 'stmdb_ldmia_arm':
                w1, w2, kind = 0xE9200000 | (base_reg << 16) | m, 0xE8B00000 | (base_reg << 16) | m, 'arm'
            else:
                w1, w2, kind = 0xE9200000 | (base_reg << 16) | m, 0xE8B00000 | (base_reg << 16) | m, 't32'
            ctx = ls.ctx(rng.choice(CTXS))
            mode = rng.choice(ctx.legal_modes(0))
            rg = [rng.getrandbits(32) for _ in range(15)]
            rg[base_reg] = rng.choice([0x100, 0x7000, 0x11800, 0x20, 0xFFFFFFF0 & ~3, 0x10 if bin(m).count('1') <= 4 else 0x7000])
            desc = scen.prepare(ctx, rng, kind, w1, mode=mode, itpos='out', regs=rg, e=rng.randrange(2) if rng.random() < 0.2 else 0)
            cpu = ctx.cpu
            if ctx.cfg['arch_version'] >= 7:
                cpu.registers.sctlr.u = 1
            M.put_code(cpu, scen.CODE + (2 if kind == 't16' else 4), w2, kind)
            before = [cpu.registers.get(i) for i in range(15)]
            k1, _ = scen.step(cpu)
            for i in range(13):
                if (m >> i) & 1:
                    cpu.registers.set(i, rng.getrandbits(32))
            k2, _ = scen.step(cpu)
            ls.res['evaluations'] += 1
            ls.bump('roundtrips_' + variant)
            if k1 != 'ok' or k2 != 'ok' or (cpu.registers.cpsr.m != M.MODES[mode]):
                ls.bump('roundtrip_not_completed')       # e.g. data abort near the edges: judged by the lock-step part
                continue
            after_ = [cpu.registers.get(i) for i in range(15)]
            ls.res['nontrivial'].add('%s|%04x' % (variant, m))
            bad = [i for i in range(15) if ((m >> i) & 1 or i == base_reg) and before[i] != after_[i]]
            if bad:
                ls.report('C03|roundtrip|%s|%s' % (variant, 'base' if base_reg in bad else 'listed-register'),
                          dict(desc, list='%#06x' % m, not_restored=bad, before=['%#x' % before[i] for i in bad],
                               after=['%#x' % after_[i] for i in bad]), dict(desc, word2='%#x' % w2))
    ls.res['violations'] = list(ls.viol.values())
    return ls.res


def replay(data):
    return L.replay_rows(ID, data)


def finish(agg, tier, seed):
    inc = L.finish_rows(agg)
    c = agg['counters']
    if sum(v for k, v in c.items() if k.startswith('roundtrips_')) < 2000:
        inc.append('too few round-trips')
    return dict(inconclusive=inc, coverage=dict(
        rows_exercised=len(agg['sets'].get('rows', ())),
        exhaustive_subspaces=(['all 2^16 register lists for the PUSH;POP / STMDB;LDMIA round-trip'] if tier == 'thorough' else []),
        explanation='lock-step part sampled per encoding; round-trip lists enumerated completely only in the thorough tier'))
