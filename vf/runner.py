"""E7 — runner: shards -> one subprocess each (never multiprocessing.Pool) -> aggregate ->
evidence/<id>.json, three-valued verdict, replay files."""
import importlib
import json
import os
import subprocess
import sys
import time
import tempfile
import collections

from vf import common
from vf import findings as findings_mod


def load_prop(pid):
    return importlib.import_module('vf.props.' + pid.lower())


def _spawn(pid, spec, out_path, env):
    spec_path = out_path + '.spec'
    with open(spec_path, 'w') as f:
        json.dump(spec, f)
    return subprocess.Popen([common.PY, '-m', 'vf.worker', pid, spec_path, out_path],
                            cwd=common.VERIF, env=env, stdout=subprocess.DEVNULL, stderr=subprocess.PIPE)


def run_shards(pid, specs, jobs=16, timeout=1500):
    env = dict(os.environ)
    env['PYTHONHASHSEED'] = '0'
    env['PYTHONPATH'] = common.VERIF + os.pathsep + env.get('PYTHONPATH', '')
    env.setdefault(common.GUARD, '1')
    tmp = tempfile.mkdtemp(prefix='shards_', dir=common.workdir())
    pending = list(enumerate(specs))
    running = {}
    results = [None] * len(specs)
    problems = []
    while pending or running:
        while pending and len(running) < jobs:
            i, spec = pending.pop(0)
            out = os.path.join(tmp, 'out%d.json' % i)
            running[i] = (_spawn(pid, spec, out, env), out, time.time())
        time.sleep(0.02)
        for i in list(running):
            p, out, t0 = running[i]
            rc = p.poll()
            if rc is None:
                if time.time() - t0 > timeout:
                    p.kill()
                    p.wait()
                    problems.append('shard %d timed out after %ds' % (i, timeout))
                    del running[i]
                continue
            err = p.stderr.read().decode(errors='replace')
            del running[i]
            if rc != 0 or not os.path.exists(out):
                problems.append('shard %d exited %s: %s' % (i, rc, err[-1500:]))
                continue
            with open(out) as f:
                results[i] = json.load(f)
    return [r for r in results if r is not None], problems


def aggregate(results):
    agg = dict(evaluations=0, distinct=set(), counters=collections.Counter(), violations={}, samples=[],
               sets=collections.defaultdict(set), known_local=collections.Counter())
    for r in results:
        agg['evaluations'] += r.get('evaluations', 0)
        agg['distinct'].update(r.get('nontrivial', ()))
        agg['counters'].update(r.get('counters', {}))
        for k, v in r.get('sets', {}).items():
            agg['sets'][k].update(v)
        for v in r.get('violations', ()):
            slot = agg['violations'].setdefault(v['key'], dict(v, count=0))
            slot['count'] += v.get('count', 1)
        if len(agg['samples']) < 12:
            agg['samples'].extend(r.get('samples', ())[:3])
    return agg


def main(argv=None):
    import argparse
    ap = argparse.ArgumentParser()
    ap.add_argument('prop')
    ap.add_argument('--tier', default=os.environ.get('VERIF_TIER', 'quick'), choices=['quick', 'thorough'])
    ap.add_argument('--seed', type=int, default=None)
    ap.add_argument('--replay', default=None)
    ap.add_argument('--jobs', type=int, default=int(os.environ.get('VERIF_JOBS', '16')))
    a = ap.parse_args(argv)
    pid = a.prop.upper()
    seed = a.seed if a.seed is not None else common.seed_from_env()
    common.ensure_deps()
    mod = load_prop(pid)
    t0 = time.time()

    if a.replay:
        with open(a.replay) as f:
            data = json.load(f)
        env = dict(os.environ, PYTHONHASHSEED='0', PYTHONPATH=common.VERIF)
        res, problems = run_shards(pid, [dict(replay=data)], jobs=1)
        viol = [v for r in res for v in r.get('violations', ())]
        for v in viol:
            print('VIOLATION property=%s replay=%s  # %s' % (pid, a.replay, v['key']))
        if problems:
            print('INCONCLUSIVE property=%s %s' % (pid, problems))
            return 2
        notrep = [r.get('not_replayable') for r in res if r.get('not_replayable')]
        if notrep and not viol:
            print('INCONCLUSIVE property=%s replay: %s' % (pid, notrep[0]))
            return 2
        print('replay: %d violation(s) reproduced' % len(viol))
        return 1 if viol else 0

    import glob
    for old in glob.glob(os.path.join(common.REPLAY, pid + '-*.json')):
        os.remove(old)
    specs = mod.plan(a.tier, seed)
    timeout = getattr(mod, 'SHARD_TIMEOUT', {}).get(a.tier, 1500 if a.tier == 'quick' else 14000)
    results, problems = run_shards(pid, specs, jobs=a.jobs, timeout=timeout)
    agg = aggregate(results)
    inconclusive = list(problems)
    extra = {}
    if hasattr(mod, 'finish'):
        fin = mod.finish(agg, a.tier, seed) or {}
        inconclusive += fin.get('inconclusive', [])
        extra = fin.get('coverage', {})

    known = findings_mod.load()
    new_viol, known_hits = [], collections.OrderedDict()
    for key in sorted(agg['violations']):
        v = agg['violations'][key]
        f = findings_mod.match(known, pid, v)
        if f is not None:
            known_hits.setdefault(f['id'], [f, 0, key])
            known_hits[f['id']][1] += v['count']
        else:
            new_viol.append(v)

    os.makedirs(common.REPLAY, exist_ok=True)
    for fid, (f, n, key) in known_hits.items():
        print('KNOWN-FINDING: property=%s %s: %s (%d cases this run)' % (pid, fid, f['mechanism'], n))
    lines = []
    for v in new_viol:
        safe = ''.join(ch if ch.isalnum() or ch in '-_.' else '_' for ch in v['key'])[:150]
        path = os.path.join(common.REPLAY, '%s-%s.json' % (pid, safe))
        with open(path, 'w') as f:
            json.dump(dict(property=pid, key=v['key'], desc=v.get('desc'), replay=v.get('replay'), tier=a.tier,
                           seed=seed, count=v['count']), f, indent=1, default=str)
        lines.append('VIOLATION property=%s replay=%s  # %s x%d: %s' % (pid, path, v['key'], v['count'],
                                                                      str(v.get('desc'))[:300]))
    wall = time.time() - t0
    cov = dict(evaluations=agg['evaluations'], distinct_nontrivial=len(agg['distinct']),
               rule=getattr(mod, 'RULE', ''), samples=agg['samples'][:12] or ['(none)'],
               exhaustive=False,
               monitor_counters=dict(agg['counters']),
               set_sizes={k: len(v) for k, v in agg['sets'].items()},
               clusters_new=[v['key'] for v in new_viol],
               known_findings_matched={fid: n for fid, (f, n, key) in known_hits.items()},
               shards=len(specs), inconclusive_reasons=inconclusive)
    seen = agg['sets'].get('control_bit_values_seen')
    if seen:
        # per control register the bits the stepped pre-states held with BOTH values (a dimension the workload varied),
        # as a mask; everything else was constant in this run
        both = {}
        for item in seen:
            reg_, rest = item.split(':')
            bit_, val_ = rest.split('=')
            both.setdefault(reg_, [0, 0])[int(val_)] |= 1 << int(bit_)
        cov['control_register_bits_varied'] = {reg_: '%#010x' % (z & o) for reg_, (z, o) in sorted(both.items())}
    cov.update(extra)
    ev = dict(property_id=pid, tier=a.tier, seed=seed, level=getattr(mod, 'LEVEL', 'exploration'), coverage=cov,
              assumptions=getattr(mod, 'ASSUMPTIONS', []), wall_s=round(wall, 2), violations=len(new_viol))
    os.makedirs(common.EVIDENCE, exist_ok=True)
    with open(os.path.join(common.EVIDENCE, pid + '.json'), 'w') as f:
        json.dump(ev, f, indent=1, default=str)
    for ln in lines:
        print(ln)
    print('%s %s seed=%d: %d evaluations, %d distinct non-trivial, %d new violation cluster(s), %d known, %.1fs'
          % (pid, a.tier, seed, cov['evaluations'], cov['distinct_nontrivial'], len(new_viol), len(known_hits), wall))
    if new_viol:
        return 1
    if inconclusive:
        print('INCONCLUSIVE property=%s %s' % (pid, '; '.join(inconclusive)[:2000]))
        return 2
    return 0


if __name__ == '__main__':
    sys.exit(main())
