"""Worker entry: python -m vf.worker <PROP> <spec.json> <out.json>"""
import json
import sys
import os


def main():
    pid, spec_path, out_path = sys.argv[1:4]
    from vf import common
    common.use_repo()
    common.ensure_deps()
    real_stdout = sys.stdout
    common.swallow_stdout()
    sys.setrecursionlimit(20000)
    from vf.runner import load_prop
    mod = load_prop(pid)
    with open(spec_path) as f:
        spec = json.load(f)
    if 'replay' in spec:
        res = mod.replay(spec['replay'])
    else:
        res = mod.run_shard(spec)
    res.setdefault('counters', {})
    res['counters']['emulator_unpredictable_prints'] = common.UNPRED.n
    res['nontrivial'] = sorted(set(res.get('nontrivial', ())))
    res['sets'] = {k: sorted(v) for k, v in res.get('sets', {}).items()}
    tmp = out_path + '.tmp'
    with open(tmp, 'w') as f:
        json.dump(res, f, default=str)
    os.replace(tmp, out_path)


if __name__ == '__main__':
    main()
