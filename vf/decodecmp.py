"""Shared machinery of C06 / C07: reference table vs the REAL decoder.
 (1) class selection decided exhaustively: the product "real decoder ; reference table" is run through the
     bit-provenance tracer, every feasible product path is visited once (both outputs are constant on it);
 (2) operand extraction compared on concrete words of every product path (witness, all-free-bits-zero,
     all-free-bits-one, each free bit alone, random members);
 (3) state independence: from_bitarray through a recording proxy of the processor, and twice under
     different random machine states."""
import importlib
import pkgutil
import random

from vf.common import use_repo
use_repo()
from vf import trace_decode as td           # noqa: E402
from vf.ref import spec as S                # noqa: E402

UNDEF_OUT = ('None', 'EXC:UndefinedInstructionException')


def class_map():
    """emulator class name -> concrete module name (the reference rows are named after the modules)"""
    import armulator.armv6.opcodes.concrete as C
    out = {}
    for m in pkgutil.iter_modules(C.__path__):
        mod = importlib.import_module('armulator.armv6.opcodes.concrete.' + m.name)
        for n, c in vars(mod).items():
            if isinstance(c, type) and c.__module__ == mod.__name__:
                out[n] = m.name
                out[m.name] = c
    return out


class TBitCount:
    """bit_count(list, 1, 16) on traced bits: supports '< 2' style comparisons as disjunctions of equalities"""

    def __init__(self, t, width):
        self.t = t
        self.width = width

    def __lt__(self, k):
        if k == 1:
            return self.t == 0
        if k == 2:
            return S.popcount_lt2(self.t, self.width)
        raise TypeError('opaque use of traced bit_count')

    def __ge__(self, k):
        return not self.__lt__(k)

    def __eq__(self, k):
        if k == 0:
            return self.t == 0
        if k == 1:
            return (not (self.t == 0)) and S.popcount_lt2(self.t, self.width)
        raise TypeError('opaque use of traced bit_count')


def t_bit_count(bits_, bit, length):
    if isinstance(bits_, td.T) and bit == 1:
        return TBitCount(bits_, len(bits_.src))
    raise TypeError('opaque use of traced bit_count')


def install_tracer():
    td.install()
    for mod in td._decoder_modules():
        if hasattr(mod, 'bit_count') and (mod.__name__, 'bit_count') not in td._saved:
            td._saved[(mod.__name__, 'bit_count')] = mod.bit_count
            mod.bit_count = t_bit_count


def traced_eq(w, mask, value):
    r = (w & mask) == value
    td.PATH.append((mask, value, r))
    return r


def product_decoder(real_dec, table, pre=None):
    def prod(w):
        if pre is not None:
            tag = pre(w)
            if tag is not None:
                return tag
        try:
            r = real_dec(w)
            real = 'None' if r is None else r.__name__
        except NotImplementedError:
            real = 'EXC:NotImplementedError'
        except TypeError:
            raise
        except Exception as e:
            real = 'EXC:' + type(e).__name__
        row = table.match(w, sub=td.t_substring, eq=traced_eq)
        if row is None:
            return real + '||<none>|UNDEFINED|1'
        sb_ok = traced_eq(w, row.sb_mask, row.sb_value) if row.sb_mask else True
        return '%s||%s|%s|%d' % (real, row.name, row.kind, 1 if sb_ok else 0)
    return prod


def judge_class(real, refname, kind, sb_ok, cmap):
    """None if consistent, else a short reason.  real: emulator outcome string."""
    real_mod = cmap.get(real) if not real.startswith(('EXC:', 'None')) else None
    if kind == 'INSTR':
        if not sb_ok:
            return None                 # should-be bits violated: UNPREDICTABLE, class identity is not constrained
        if real_mod == refname:
            return None
        return 'emulator=%s reference=%s' % (real_mod or real, refname)
    if kind == 'UNDEFINED':
        if real in UNDEF_OUT or (real_mod or '').startswith('udf_'):
            return None
        return 'emulator=%s reference=UNDEFINED(%s)' % (real_mod or real, refname)
    if kind == 'OPTIONAL':
        if real in UNDEF_OUT or real == 'EXC:NotImplementedError':
            return None
        return 'emulator=%s reference=OPTIONAL(%s)' % (real_mod or real, refname)
    if kind == 'UNALLOC_HINT':
        if real in UNDEF_OUT or (real_mod or '').startswith(('nop_', 'pld_')) or real == 'EXC:NotImplementedError':
            return None
        return 'emulator=%s reference=unallocated hint (NOP or UNDEFINED)' % (real_mod or real)
    return 'unknown kind'


def enumerate_product(real_dec, table, nbits, seed, pre=None):
    install_tracer()
    try:
        prod = product_decoder(real_dec, table, pre)
        leaves, runs, infeasible, complete = td.enumerate_paths(prod, nbits, random.Random(seed), cap=400000)
        memo = {}
        total = 0
        out = []
        for p, o, w in leaves:
            m, v, ds = td.split(list(p))
            total += td.count_c(m, v, ds, nbits, memo)
            out.append((m, v, ds, o, w))
        return out, dict(product_paths=len(leaves), runs=runs, infeasible_prefixes=infeasible, complete=complete,
                         model_count=total, partition_ok=(total == 1 << nbits), opaque=td.OPAQUE[0])
    finally:
        td.uninstall()


# ------------------------------------------------------------------------------------------ operands
def norm(v):
    import enum
    if isinstance(v, enum.Enum):
        return v.name
    if isinstance(v, bool):
        return int(v)
    if isinstance(v, int) and -(1 << 32) < v < 0:
        return v & 0xFFFFFFFF          # a negative Python int is the same 32-bit immediate
    return v


class Recorder:
    """recording proxy for the `processor` argument of from_bitarray"""

    def __init__(self, target, log, prefix=''):
        object.__setattr__(self, '_t', target)
        object.__setattr__(self, '_log', log)
        object.__setattr__(self, '_p', prefix)

    def __getattr__(self, name):
        v = getattr(self._t, name)
        path = self._p + name
        if callable(v) and not hasattr(v, 'value'):
            self._log.add(path + '()')
            return v
        self._log.add(path)
        if isinstance(v, (int, str, bool, type(None))):
            return v
        return Recorder(v, self._log, path + '.')

    def __setattr__(self, name, value):
        self._log.add('WRITE:' + self._p + name)
        setattr(self._t, name, value)


ALLOWED_READS = {'registers', 'registers.cpsr', 'registers.cpsr.c', 'in_it_block()', 'last_in_it_block()',
                 'registers.current_instr_set()', 'registers.cpsr.it', 'registers.cpsr.t', 'registers.cpsr.j',
                 'registers.cpsr.isetstate', 'registers.current_mode_is_hyp()', 'registers.cpsr.m'}


def sample_words(m, v, ds, nbits, rng, n_random):
    full = (1 << nbits) - 1
    free = ~m & full
    ws = []
    w0 = td.solve_c(m, v, ds, nbits, None)
    if w0 is not None:
        ws.append(w0)
    w1 = (free | v) & full
    if all((w1 & dm) != dv for dm, dv in ds):
        ws.append(w1)
    b = free
    while b:
        bit = b & -b
        b &= b - 1
        w = v | bit
        if all((w & dm) != dv for dm, dv in ds):
            ws.append(w)
        w = (free | v) & ~bit & full
        if all((w & dm) != dv for dm, dv in ds):
            ws.append(w)
    # pairs of free bits (one bit of one field together with one bit of another: base-register number x list, ...)
    fb = [1 << i for i in range(nbits) if (free >> i) & 1]
    for _ in range(min(len(fb) * 2, 24) if len(fb) >= 2 else 0):
        a, b2 = rng.sample(fb, 2)
        w = v | a | b2
        if all((w & dm) != dv for dm, dv in ds):
            ws.append(w)
    for _ in range(n_random):
        w = td.sample(m, v, ds, nbits, rng)
        if w is not None:
            ws.append(w)
    return ws
