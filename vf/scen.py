"""E5 — execution contexts (configuration x protection x memory layout) and valid machine-state
generation shared by the reference-free monitors and the lock-step monitor."""
from vf.common import use_repo
use_repo()
from vf import machine as M          # noqa: E402
from vf import observe               # noqa: E402

CONFIGS = {
    'v6-pmsa-sec': dict(arch=6, msa='PMSA', sec=True),
    'v6-pmsa': dict(arch=6, msa='PMSA', sec=False),
    'v7-pmsa-r': dict(arch=7, msa='PMSA', sec=False, v7r=True),
    'v7-vmsa-sec': dict(arch=7, msa='VMSA', sec=True),
    'v7-vmsa-virt': dict(arch=7, msa='VMSA', sec=True, virt=True, lpae=True),
    'v5-pmsa': dict(arch=5, msa='PMSA', sec=False),
    'v4-pmsa': dict(arch=4, msa='PMSA', sec=False),
    'v6-vmsa': dict(arch=6, msa='VMSA', sec=False),
    # configuration files that differ from the others in their reset_values section only (C20: instances created from
    # files with different reset values must not see each other's)
    'v6-pmsa-sec-rv': dict(arch=6, msa='PMSA', sec=True, reset_values=dict(VBAR=0x40, DACR=0x55555555, ACTLR=0x5)),
    'v7-vmsa-sec-rv': dict(arch=7, msa='VMSA', sec=True, reset_values=dict(VBAR=0x11000, DACR=0xFFFFFFFF)),
    # the IMPLEMENTATION DEFINED choices the configuration file exposes, each set to the value the stock file does NOT
    # have: reset vector and the VE interrupt vectors somewhere else, the other DFSR/HSR filler bits, fewer MPU regions
    'v6-pmsa-sec-impdef': dict(arch=6, msa='PMSA', sec=True, has_imp_def_reset_vector=True, impdef_reset_vector=0x10040,
                               impdef_irq_vector=0x11100, impdef_fiq_vector=0xFFFFF204, dfsr_string_12=0,
                               data_abort_pmsa_change_dfar=False, number_of_mpu_regions=8, processor_id=3),
    'v7-vmsa-virt-impdef': dict(arch=7, msa='VMSA', sec=True, virt=True, lpae=True, has_imp_def_reset_vector=True,
                                impdef_reset_vector=0xFFFFF000, impdef_irq_vector=0x10018, impdef_fiq_vector=0x1001C,
                                dfsr_string_12=0, data_abort_hsr_9=1, write_hsr_hsr_value_24=True, write_hsr_23_22_cond=False,
                                coproc_accepted_pl0_undefined=False, have_mp_ext=True, processor_id=1),
}

RAM_A = (0x0, 0x8000)
RAM_B = (0x10000, 0x12000)
RAM_T = (0xFFFFF000, 0x100000000)
# a fourth device exactly adjacent to RAM_A and listed after it: an access that starts at its first byte is where an
# off-by-one of the hub's range test shows (device indices of the first three stay what the checks name)
RAM_C = (0x8000, 0x8F80)
# ... and a fifth one that shares its 4 KB page with the end of RAM_C (listed last, indices of the others unchanged): which
# device serves an access is decided by the address alone, not by the page it lies in nor by what the page served before
RAM_D = (0x8F80, 0x9000)
MEMS = [RAM_A, RAM_B, RAM_T, RAM_C, RAM_D]
CODE = 0x10000
L1_TABLE = 0x4000
L2_TABLE = 0x3000
# physical ranges that User-mode code has no write permission for, per protection setting (programmed below)
USER_PROTECTED = {'off': [], 's2': [], 'mpu': [(0x1000, 0x3000), (0x11800, 0x12000)], 'mmu': [(0x1000, 0x8000)], 'mmu-ld': None}

ADDRISH = [0x0, 0x4, 0x100, 0x104, 0xFFC, 0x1000, 0x1004, 0x1FFC, 0x2000, 0x2ffc, 0x7FF8, 0x7FFC, 0x7FFE, 0x8000, 0x8004, 0x8F7C, 0x8F80, 0x8F84, 0x8FFC, 0x9000,
           0x10800, 0x11000, 0x11004, 0x11FF8, 0x11FFC, 0x12000, 0xFFFFF000, 0xFFFFF800, 0xFFFFFFE0, 0xFFFFFFF0,
           0xFFFFFFF8, 0xFFFFFFFC, 0xFFFFFFFE, 0xFFFFFFFF, 0x20000000, 0x101, 0x102, 0x103, 0x1001, 0x1002,
           0x00100100, 0x00200100, 0x00201100, 0x00300000]


def cfg_of(name):
    return M.make_config(mems=MEMS, **CONFIGS[name])


def mode_word(mode):
    return M.MODES[mode]


class Ctx:
    """One configuration + protection setting with a reusable CPU and its base snapshot."""

    def __init__(self, cfgname, prot='off', fill=True):
        self.cfgname = cfgname
        self.prot = prot
        self.cfg = cfg_of(cfgname)
        cpu = M.build(self.cfg, thumb=False)
        M.set_memories(cpu, MEMS, M.pattern_fill if fill else None)
        self.cpu = cpu
        if prot == 'mpu':
            self._program_mpu()
        elif prot == 'mmu':
            self._program_mmu()
        elif prot == 'mmu-ld':
            self._program_mmu_ld()
        elif prot == 's2':
            self._program_s2()
        self.base = observe.snapshot(cpu)

    def _program_mpu(self):
        r = self.cpu.registers
        assert self.cfg['memory_system_architecture'] == 'PMSA'
        r.mpuir.dregion = len(r.drsrs)
        regions = [(0x0, 31, 0b011, 0), (0x1000, 11, 0b001, 0), (0x2000, 11, 0b110, 0), (0x11800, 10, 0b010, 0),
                   (0x6000, 12, 0b011, 0x0F)]
        for i, (base, rsize, ap, sd) in enumerate(regions):
            r.drbars[i] = base
            r.drsrs[i].value = (sd << 8) | (rsize << 1) | 1
            r.dracrs[i].value = ap << 8
        r.sctlr.m = 1
        r.sctlr.br = 0

    def _program_mmu(self):
        cpu = self.cpu
        r = cpu.registers
        assert self.cfg['memory_system_architecture'] == 'VMSA'

        def w32(a, v):
            M.poke(cpu, a, v.to_bytes(4, 'little'))
        for i in range(4096):
            w32(L1_TABLE + 4 * i, 0)
        w32(L1_TABLE + 4 * 0x000, (0x000 << 20) | (0b10 << 10) | (0 << 5) | 0b10)       # flat, priv RW / user RO, domain 0
        w32(L1_TABLE + 4 * 0x001, (0x000 << 20) | (0b01 << 10) | (0 << 5) | 0b10)       # alias, privileged only
        w32(L1_TABLE + 4 * 0x002, L2_TABLE | (0 << 5) | 0b01)                           # page table
        w32(L1_TABLE + 4 * 0x003, (0x000 << 20) | (0b11 << 10) | (2 << 5) | 0b10)       # domain 2 (no access)
        w32(L1_TABLE + 4 * 0x004, (0x001 << 20) | (1 << 15) | (0b11 << 10) | (1 << 5) | 0b10)  # domain 1 (manager: no permission checks) -> unmapped PA 0x00100000
        w32(L1_TABLE + 4 * 0xFFF, (0xFFF << 20) | (0b11 << 10) | (0 << 5) | 0b10)
        for i in range(256):
            w32(L2_TABLE + 4 * i, 0)
        w32(L2_TABLE + 4 * 0, (0x00000 << 12) | (0b11 << 4) | 0b10)      # small page VA 0x00200000 -> PA 0
        w32(L2_TABLE + 4 * 1, (0x00001 << 12) | (0b01 << 4) | 0b10)      # small page, privileged only
        w32(L2_TABLE + 4 * 2, (0x00002 << 12) | (1 << 9) | (0b11 << 4) | 0b10)  # read-only
        w32(L2_TABLE + 4 * 16, (0x0001 << 16) | (0b11 << 4) | 0b01)      # large page VA 0x00210000 -> PA 0x10000
        r.ttbr0 = L1_TABLE
        r.ttbr0_64 = L1_TABLE
        r.ttbcr.value = 0
        r.dacr.value = 0b00_11_01        # domain0 client, domain1 manager, domain2 none
        r.sctlr.tre = 0
        r.sctlr.afe = 0
        r.sctlr.m = 1

    def _program_mmu_ld(self):
        """long-descriptor stage-1 tables (TTBCR.EAE = 1, T0SZ = T1SZ = 0): three levels for the first 2MB, 2MB blocks,
        and the top page of the address space"""
        cpu = self.cpu
        r = cpu.registers
        assert self.cfg['have_lpae']
        L1, L2A, L2B, L3A, L3B = 0x4000, 0x5000, 0x6000, 0x3000, 0x7000

        def w64(a, v):
            M.poke(cpu, a, v.to_bytes(8, 'little'))
        for t in (L1, L2A, L2B, L3A, L3B):
            M.poke(cpu, t, bytes(0x1000))
        AF, TABLE, PAGE, BLOCK = 1 << 10, 0b11, 0b11, 0b01

        def attrs(ap, idx=3, af=1, xn=0):
            return (xn << 54) | (af << 10) | (ap << 6) | (idx << 2)
        w64(L1 + 0, L2A | TABLE)
        w64(L1 + 24, L2B | TABLE | (1 << 62))                    # APTable<1>: read-only below this table
        w64(L2A + 0, L3A | TABLE)                                # VA 0x000000-0x1FFFFF by pages
        w64(L2A + 8, 0x0 | attrs(0b01) | BLOCK)                  # VA 0x200000: 2MB block -> PA 0, RW at any level
        w64(L2A + 16, 0x0 | attrs(0b01, af=0) | BLOCK)           # VA 0x400000: access flag clear
        w64(L2A + 24, 0x0 | attrs(0b00) | BLOCK)                 # VA 0x600000: privileged only
        w64(L2A + 32, 0x0 | attrs(0b11, idx=1) | BLOCK)          # VA 0x800000: read-only, Device
        w64(L2B + 8 * 511, L3B | TABLE)
        w64(L3B + 8 * 511, 0xFFFFF000 | attrs(0b01) | PAGE)      # written read-only through APTable
        for pg in range(512):
            pa = pg << 12
            if pg == 1:
                d = pa | attrs(0b00) | PAGE                      # 0x1000: privileged only
            elif pg == 2:
                d = pa | attrs(0b11) | PAGE                      # 0x2000: read-only
            elif 3 <= pg <= 7:
                d = pa | attrs(0b10) | PAGE                      # tables: privileged read-only
            elif pg == 8:
                d = pa | attrs(0b01, idx=0) | PAGE               # 0x8000: Strongly-ordered (unmapped PA)
            elif pg in (0x10, 0x11):
                d = pa | attrs(0b01) | PAGE                      # code
            elif pg == 0x12:
                d = 0x11000 | attrs(0b01, af=0) | PAGE
            elif pg < 0x20:
                d = pa | attrs(0b01) | PAGE
            elif pg == 0x100:
                d = 0x1000 | attrs(0b10) | PAGE                  # VA 0x100000 -> PA 0x1000 privileged read-only
            elif pg == 0x101:
                d = 0x0 | attrs(0b01) | 0b01                     # reserved level-3 encoding
            else:
                d = 0
            w64(L3A + 8 * pg, d)
        # VA 0x40000000..0x4000FFFF: three levels, "no PL0 access below here" (APTable<0>) in the LEVEL-1 table descriptor
        # only; the level-2 table descriptor says nothing and the pages themselves allow User access (AP<1> = 1)
        L2C, L3C = 0x8000, 0x11000
        M.poke(cpu, L2C, bytes(0x1000))
        M.poke(cpu, L3C, bytes(0x1000))
        w64(L1 + 8, L2C | TABLE | (1 << 61))
        w64(L2C + 0, L3C | TABLE)
        for pg in range(16):
            w64(L3C + 8 * pg, (pg << 12) | attrs(0b01) | PAGE)
        r.ttbr0 = r.ttbr0_64 = L1
        r.ttbr1 = r.ttbr1_64 = 0
        r.ttbcr.value = 1 << 31
        r.mair0 = 0xFF440400
        r.mair1 = 0xFF440400
        r.sctlr.afe = 1
        r.sctlr.tre = 0
        r.sctlr.m = 1
        # the Hyp-mode stage-1 regime walks the same tables (HTTBR / HTCR.T0SZ = 0 / HMAIR, HSCTLR.M = 1): Hyp-mode steps of
        # this context see Normal memory where the tables say so (with the Hyp MMU off every Hyp-mode access would be
        # Strongly-ordered and any unaligned one would fault, whatever HSCTLR.A says)
        r.httbr = L1
        r.htcr.value = 0
        r.hmair0 = 0xFF440400
        r.hmair1 = 0xFF440400
        r.hsctlr.m = 1

    def _program_s2(self):
        """stage-2 tables only (stage 1 off): VTCR.T0SZ = 0, SL0 = 1 -> four 1 GB level-1 entries at VTTBR; the first and the
        last gigabyte are Normal read/write blocks mapped flat, the two in the middle are invalid (an access there from a
        Non-secure PL1/PL0 mode is a stage-2 translation fault taken to Hyp mode).  HCR.VM is left 0 here: the workload
        switches stage 2 on after it has placed its operands."""
        cpu = self.cpu
        r = cpu.registers
        assert self.cfg['have_virt_ext'] and self.cfg['have_lpae']
        T = 0x4000
        attrs = (1 << 10) | (0b11 << 6) | (0b1111 << 2) | 0b01
        M.poke(cpu, T, (0x00000000 | attrs).to_bytes(8, 'little') + bytes(16) + (0xC0000000 | attrs).to_bytes(8, 'little'))
        r.vttbr = T
        r.vtcr.value = (1 << 31) | (1 << 6)

    def fresh(self):
        M.activate(self.cpu)
        observe.restore(self.cpu, self.base)
        self.cpu.opcode = 0
        self.cpu.opcode_len = 0
        self.cpu.executed_opcode = None
        self.cpu.registers.changed_registers = [False] * 16
        return self.cpu

    def legal_modes(self, ns):
        return M.legal_modes(self.cfg, ns)


def reg_value(rng):
    k = rng.random()
    if k < 0.5:
        return rng.choice(ADDRISH)
    if k < 0.6:
        return (rng.choice(ADDRISH) + rng.choice((-4, -2, -1, 1, 2, 4, 8))) & 0xFFFFFFFF
    return M.rand32(rng)


IT_POSITIONS = ('out', 'mid', 'last')


def it_value(rng, pos, cond=None):
    if pos == 'out':
        return 0
    c = rng.randrange(14) if cond is None else cond
    if pos == 'last':
        return (c << 4) | 0b1000
    low = rng.choice([0b0100, 0b1100, 0b0010, 0b0110, 0b1010, 0b1110, 0b0001, 0b0011, 0b0101, 0b0111, 0b1001, 0b1011,
                      0b1101, 0b1111])
    return ((c << 4) | low) & 0xFF


def prepare(ctx, rng, kind, word, mode='svc', itpos='out', ns=0, nzcv=None, fill_priv=True, code=CODE,
            itcond=None, e=0, regs=None, aif=None, sp_low=0):
    """Put the CPU of ctx into a valid random machine state with `word` at the PC.  Returns a
    description (used in samples / replay)."""
    cpu = ctx.fresh()
    r = cpu.registers
    thumb = kind != 'arm'
    if fill_priv:
        for rn in list(r._R):
            r._R[rn] = rng.getrandbits(32)
        for s in ('spsr_svc', 'spsr_abt', 'spsr_und', 'spsr_irq', 'spsr_fiq', 'spsr_mon', 'spsr_hyp'):
            # a *valid* SPSR: legal mode field for this configuration, J=0
            md = mode_word(rng.choice(ctx.legal_modes(ns)))
            v = (rng.getrandbits(32) & ~0x0100001F) | md
            if not (v & 0x20):
                v &= ~0x0600FC00      # ARM state: IT must be zero
            setattr(r, s, v)
        r.elr_hyp = rng.getrandbits(32) & ~1
    if ctx.cfg['have_security_ext']:
        r.scr.ns = 1 if ns else 0
    cp = 0
    cp |= ((rng.getrandbits(4) if nzcv is None else nzcv) << 28)
    cp |= rng.getrandbits(1) << 27            # Q
    cp |= rng.getrandbits(4) << 16            # GE
    cp |= (e & 1) << 9
    cp |= ((rng.getrandbits(3) if aif is None else aif) << 6)
    cp |= (1 << 5) if thumb else 0
    cp |= mode_word(mode)
    r.cpsr.value = cp
    if thumb and itpos != 'out':
        r.cpsr.it = it_value(rng, itpos, itcond)
    vals = []
    for n in range(15):
        v = reg_value(rng) if regs is None or regs[n] is None else regs[n]
        if n == 13:
            v = (v & ~3) | (sp_low & 3)
        r.set_rmode(n, r.cpsr.m, v)
        vals.append(v)
    r._R[type(next(iter(r._R))).PC] = code
    M.put_code(cpu, code, word, kind)
    r.changed_registers = [False] * 16
    d = dict(ctx=[ctx.cfgname, ctx.prot], kind=kind, word='%#x' % word, mode=mode, it=r.cpsr.it, ns=ns,
             cpsr='%#010x' % r.cpsr.value, regs=['%#x' % v for v in vals])
    if code != CODE:
        d['code'] = '%#x' % code
    return d


def step(cpu):
    """One real step.  Returns (kind, signature): 'ok' | 'notimpl' | 'host'."""
    from vf.common import exc_signature
    try:
        cpu.emulate_cycle()
        return 'ok', None
    except NotImplementedError as ex:
        return 'notimpl', exc_signature(ex)
    except RecursionError as ex:
        return 'host', ('RecursionError', '?', '?', 0)
    except Exception as ex:
        return 'host', exc_signature(ex)
