#!/bin/bash
# usage: tools/sweep_some.sh <tier> <seed> <Cnn>...   — like sweep.sh for a chosen list of checks
tier=$1; seed=$2; shift 2
for p in "$@"; do
  out=$(VERIF_SEED=$seed ./check.py $p --tier $tier 2>&1); rc=$?
  echo "$out" | grep -E "^(VIOLATION|INCONCLUSIVE)" | cut -c1-600
  echo "rc=$rc $(echo "$out" | grep -E "^C[0-9]+ (quick|thorough)" | tail -1)"
done
