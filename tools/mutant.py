#!/venv/bin/python
"""Run checks against a mutated scratch copy of the repository (never /repo itself).

  tools/mutant.py <patch.diff> C05 [C18 ...] [--no-tests] [--tier quick]

Copies /repo's working tree to /var/tmp/armulator-mut-<pid>, applies the patch, runs the repository's
own test suite there (must still pass for a realistic mutant), then each named check with
ARMULATOR_REPO pointing at the copy, and deletes the copy.  Evidence files of /verif are restored."""
import os
import shutil
import subprocess
import sys
import tempfile

HERE = os.path.dirname(os.path.dirname(os.path.abspath(__file__)))


def main():
    args = [a for a in sys.argv[1:] if not a.startswith('--')]
    flags = [a for a in sys.argv[1:] if a.startswith('--')]
    patch, props = os.path.abspath(args[0]), args[1:]
    tier = 'quick'
    for f in flags:
        if f.startswith('--tier='):
            tier = f.split('=')[1]
    dst = '/var/tmp/armulator-mut-%d' % os.getpid()
    subprocess.run(['rsync', '-a', '--exclude', '.git', '--exclude', '__pycache__', '/repo/', dst + '/'], check=True)
    ev_backup = tempfile.mkdtemp(prefix='evbak_', dir='/var/tmp')
    try:
        r = subprocess.run(['patch', '-p1', '-s', '-d', dst, '-i', patch])
        if r.returncode != 0:
            print('PATCH FAILED')
            return 3
        if '--no-tests' not in flags:
            env = dict(os.environ, PYTHONPATH=dst)
            t = subprocess.run(['/venv/bin/python', '-m', 'pytest', '-q', '-p', 'no:cacheprovider', '-x', '-q'],
                               cwd=dst, env=env, capture_output=True, text=True)
            print('repo tests on mutant:', t.stdout.strip().splitlines()[-1] if t.stdout.strip() else t.stderr[-300:])
        shutil.copytree(os.path.join(HERE, 'evidence'), os.path.join(ev_backup, 'evidence'))
        rc_all = {}
        for p in props:
            env = dict(os.environ, ARMULATOR_REPO=dst)
            c = subprocess.run([os.path.join(HERE, 'check.py'), p, '--tier', tier], cwd=HERE, env=env,
                               capture_output=True, text=True)
            lines = [l for l in c.stdout.splitlines() if l.startswith(('VIOLATION', 'INCONCLUSIVE', 'KNOWN'))]
            print('%s exit=%d  %s' % (p, c.returncode, ('; '.join(l[:260] for l in lines[:4])) or c.stdout.strip()[-200:]))
            if c.returncode not in (0, 1, 2):
                print(c.stderr[-2000:])
            rc_all[p] = c.returncode
        return 0 if any(v == 1 for v in rc_all.values()) else 4
    finally:
        shutil.rmtree(dst, ignore_errors=True)
        if os.path.isdir(os.path.join(ev_backup, 'evidence')):
            shutil.rmtree(os.path.join(HERE, 'evidence'), ignore_errors=True)
            shutil.copytree(os.path.join(ev_backup, 'evidence'), os.path.join(HERE, 'evidence'))
        shutil.rmtree(ev_backup, ignore_errors=True)


if __name__ == '__main__':
    sys.exit(main())
