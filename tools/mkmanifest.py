#!/venv/bin/python
"""Regenerates MANIFEST.json from the table below (run after adding a check)."""
import json
import os
import sys

HERE = os.path.dirname(os.path.dirname(os.path.abspath(__file__)))
sys.path.insert(0, HERE)

CHECKS = {
    # id: (technique, level text, level note, design ref)
    'C16': ('runtime monitoring: random access histories - with the controller registry itself changing between accesses - '
            'checked op-by-op against a sequential device model + icontract class invariant on RAM',
            'Every operation of ~1M (quick) generated hub reads/writes is compared byte-for-byte over all devices '
            'with a 15-line first-match-wins model; held on the histories observed, nothing more.',
            'Trusted: the sequential model in vf/props/c16.py; CPython.', 'DESIGN.md §2 C16'),
    'C18': ('runtime monitoring: escape monitor around the real emulate_cycle() over all Thumb-16 words x IT positions, '
            'every decoder path (bit-provenance tracer), random words, random programs, hostile MMU set-ups, every data-accessing '
            'encoding row with addresses solved onto memory, translation walks over generated page tables and a write-then-read '
            'sweep of the cp14/cp15 register space on long-lived instances with a register-object type audit',
            'Every step of the workload is observed for an escaping host exception; exhaustive for the 2^16 Thumb-16 '
            'words x 3 IT positions and for at-least-one-word-per-feasible-decoder-path, sampled elsewhere.',
            'Trusted: the path enumeration of vf/trace_decode.py (partition checked by model counting); valid-state '
            'generator of vf/scen.py; CPython.', 'DESIGN.md §2 C18'),
    'C19': ('runtime monitoring: full-state diff of real User-mode steps against the unprivileged location set / '
            'architectural exception-entry shape; translation spy for LDRT/STRT-family in privileged modes',
            'Reference-free oracle over every Thumb-16 word, every decoder path and random words in User mode '
            '(secure/non-secure, MPU/MMU on/off); held on the executions observed.',
            'Trusted: the unprivileged location set and the harness-programmed MPU/MMU permissions in vf/scen.py.',
            'DESIGN.md §2 C19'),
    'C20': ('runtime monitoring: trace equality (replay from deep copy, history independence after restore, every '
            'interleaving of 2 x 4 events and random schedules of 2-3 instances), each scenario in a child forked from '
            'a pristine process',
            'Per-step traces (all registers, system registers, memory digest, escape signature) are compared with '
            'the trace the same instance produces alone in a fresh process.',
            'Trusted: os.fork gives a pristine interpreter state; the trace covers all architectural state of vf/observe.py.',
            'DESIGN.md §2 C20'),
    'C05': ('runtime monitoring: exhaustive condition truth table through the real condition_passed(); no-op diff '
            'monitor for failing conditions; AL-equivalence monitor for passing ones',
            'Reference-free: the 16x16 table in all condition sources is enumerated completely; every decoder path and '
            'every Thumb-16 word is stepped with failing and passing conditions and the full state diff judged.',
            'Trusted: the 16-entry condition table transcribed in vf/props/c05.py; the short list of Thumb classes that '
            'are UNPREDICTABLE inside IT blocks.', 'DESIGN.md §2 C05'),
    'C10': ('runtime monitoring: step-boundary range sweep over the whole register file on every decoder path with '
            'code at the edges of the address space; unique-value API histories audited after every operation against '
            'a sequential bank model; bank-naming instructions (LDM/STM user registers, SRS/RFE, CPS, MSR, exception returns) in '
            'lock-step with an independent reference step',
            'Range invariant observed after ~300k real steps (quick) incl. all Thumb-16 words; banking audited over '
            '~200k API operations with all bank cells re-read after each.',
            'Trusted: the bank table in vf/props/c10.py (ARM ARM B1.3.2); vf/ref for the instruction part.', 'DESIGN.md §2 C10, §10.5'),
    'C17': ('runtime monitoring: direct calls of the real helpers and field properties compared with reference '
            'primitives written from the pseudocode and with a table of architectural bit positions',
            'Exhaustive for widths 1..8, all 2x4096 modified immediates, all (type, imm5) and every value of every field '
            '<= 8 bits; corners and random values at widths 16/32/64 with shifts 0..255.',
            'Trusted: vf/ref/bits.py and the field table in vf/props/c17.py (both transcribed from the ARM ARM).',
            'DESIGN.md §2 C17'),
    'C06': ('runtime monitoring: the real ARM decoder run under a bit-provenance tracer in product with an independent '
            'encoding table; every product path visited; operands and state independence on concrete words',
            'Class selection observed on every feasible path of (real decoder x reference table) - the paths partition all '
            '2^32 words (model count checked); operand extraction compared on path witnesses, affine bases and random '
            'members; decode through a recording proxy.',
            'Trusted: vf/ref/spec_arm.py (transcribed from the ARM ARM; cross-validated by agreeing with the real decoder on '
            'all but the repaired words), the tracer assumption that decoders touch the word only via substring/bit_at/chain.',
            'DESIGN.md §2 C06'),
    'C07': ('runtime monitoring: as C06 for the Thumb decoders, plus all 2^16 Thumb-16 words x 3 IT positions decoded '
            'end-to-end and the 32-bit-prefix rule on all first halfwords',
            'Exhaustive class selection for Thumb-16 and Thumb-32; every Thumb-16 word operand-compared inside/outside/last '
            'in IT; fetch length checked for all 2^16 first halfwords.',
            'Trusted: vf/ref/spec_t16.py, spec_t32.py; same tracer assumption.', 'DESIGN.md §2 C07'),
    'C01': ('runtime monitoring: lock-step differential monitor - real emulate_cycle() vs an independent reference '
            'step from the same snapshot, every location compared',
            'Words generated from each of the 153 data-processing encoding rows, corner-heavy operands, all modes, arch '
            '4..7, inside/outside IT; held on the sampled executions.',
            'Trusted: the reference model vf/ref (written from the ARM ARM pseudocode); known findings are booked only '
            'through executable deviation models.', 'DESIGN.md §2 C01'),
    'C09': ('runtime monitoring: lock-step differential monitor over the multiply/divide/saturating/parallel/extend/'
            'bit-field/reversal encodings with a lane-boundary operand pool',
            'Every one of the ~250 encoding rows sampled with lane-boundary operands, prior Q/GE random; full-state diff.',
            'Trusted: vf/ref/sem_dp.py.', 'DESIGN.md §2 C09'),
    'C02': ('runtime monitoring: lock-step differential monitor (real step vs independent reference step from the same snapshot, every register, status bit and memory byte compared) over the LDR/STR families',
            'Every single-register load/store encoding row sampled with addresses at device boundaries and at both ends of the address space, E/A/U varied; byte-exact memory diff = write footprint.',
            'Trusted: vf/ref/mem.py, sem_mem.py.', 'DESIGN.md §2 C02'),
    'C03': ('runtime monitoring: lock-step differential monitor (real step vs independent reference step from the same snapshot, every register, status bit and memory byte compared) over LDM/STM/PUSH/POP/SRS/RFE + reference-free PUSH;POP / STMDB;LDMIA round trip',
            'Block-transfer rows sampled at wrapping bases in all modes; round trip restores listed registers and base; all 2^16 lists enumerated in the thorough tier.',
            'Trusted: vf/ref/sem_mem.py.', 'DESIGN.md §2 C03'),
    'C04': ('runtime monitoring: lock-step differential monitor (real step vs independent reference step from the same snapshot, every register, status bit and memory byte compared) over the branch encodings + PC-alignment invariant; exhaustive imm8/imm11/CBZ offsets',
            'All branch rows at code addresses in the middle and at both edges of the address space, arch 4..7; small offset spaces enumerated.',
            'Trusted: vf/ref/sem_sys.py.', 'DESIGN.md §2 C04'),
    'C08': ('runtime monitoring: IT-block programs stepped in lock-step with the reference after every instruction, with injected exceptions and returns; it_advance() enumerated',
            'All legal (firstcond, mask) x 16 NZCV as programs; all 256 ITSTATE values through it_advance().',
            'Trusted: vf/ref (ITAdvance, exception entry/return).', 'DESIGN.md §2 C08'),
    'C12': ('runtime monitoring: lock-step differential monitor (real step vs independent reference step from the same snapshot, every register, status bit and memory byte compared) over MRS/MSR/CPS/SETEND/exception returns/hints + negative invariants + entry/return round trip + coprocessor-gating matrix',
            'PSR masks x modes x security x NMFI/AW/FW sampled; gating matrix enumerated; round trips for 5 exception kinds with ARM and Thumb handlers.',
            'Trusted: vf/ref CPSRWriteByInstr/SPSRWriteByInstr; the gating decision function in vf/props/c12.py.', 'DESIGN.md §2 C12'),
    'C13': ('runtime monitoring: direct calls of the real MemA/MemU entry points over the full (size, offset, E, A, U, arch, privilege) matrix vs the reference memory model; store/load round trip; fetch-endianness monitor',
            'All 1536 cells visited; value, byte-exact RAM diff, fault kind and DFSR/DFAR compared.',
            'Trusted: vf/ref/mem.py.', 'DESIGN.md §2 C13'),
    'C11': ('runtime monitoring: direct calls of every take_*_exception / take_reset and SVC/UDF instructions from randomly composed valid states, full post-state compared with the reference entry procedures',
            'Kind x source mode x T/IT x masks x SCTLR/SCR/HCR/HSCTLR bits x vector bases x PC x three extension configurations, all factors independent random (47k entries quick); routes observed are listed in the evidence.',
            'Trusted: vf/ref/model.py exception entry (B1.9).', 'DESIGN.md §2 C11'),
    'C14': ('runtime monitoring: translate_address() on generated MPU region sets vs an independent region matcher (decision, fault kind, DFSR/DFAR) + lock-step of load/store families with the MPU on',
            'Boundary-biased addresses around every generated region/subregion edge; aborts at any position of multi-word transfers compared incl. abort bookkeeping.',
            'Trusted: vf/ref/mem.py translate_p/check_permission.', 'DESIGN.md §2 C14'),
    'C15': ('runtime monitoring: translate_address() on generated short-descriptor and long-descriptor (stage 1, PL1&0 and Hyp regimes) page tables written into RAM vs an independent walker + lock-step of loads/stores with the MMU on (short- and long-descriptor layouts)',
            'All descriptor types, TTBCR.N, PD0/PD1, DACR, AFE, TRE, EE, FCSE; T0SZ/T1SZ, EPD0/1, 1-3 levels, hierarchical table bits, AF, AP[2:1], MAIR sampled; physical address or fault kind/level/domain/DFAR compared. Stage-2 walks are not judged.',
            'Trusted: vf/ref/mem.py walk_sd/walk_ld_s1/translate_v.', 'DESIGN.md §2 C15, §10.2'),
}

NOT_APPLICABLE = {}


def main():
    props = [json.loads(l) for l in open(os.path.join(HERE, 'properties.jsonl'))]
    checks = []
    for p in props:
        pid = p['id']
        if pid not in CHECKS:
            continue
        tech, text, note, ref = CHECKS[pid]
        checks.append(dict(
            property_id=pid,
            quick_cmd='./check.py %s --tier quick' % pid,
            thorough_cmd='./check.py %s --tier thorough' % pid,
            evidence_file='evidence/%s.json' % pid,
            replay_cmd_template='./check.py %s --replay {path}' % pid,
            engine='vf',
            level_claimed=dict(category='exploration', text=text + ' The exact case definition of the current generators '
                               '(placement of code and data, control-register noise, boundary solving, field-product sweeps ...) is the '
                               '"rule" field of the evidence file; DESIGN.md §10.5 says which seeded change prompted which dimension.',
                               design_ref=ref),
            level_note=note,
            technique=tech))
    na = []
    for p in props:
        if p['id'] not in CHECKS:
            na.append(dict(property_id=p['id'],
                           reason=NOT_APPLICABLE.get(p['id'], 'check not built yet (runtime monitor planned, see '
                                                              'DESIGN.md §2); not claimed until it runs clean')))
    m = dict(
        version=1,
        setup_cmd='/venv/bin/python -c "import sys; sys.path.insert(0, \'.\'); from vf import common; '
                  'common.ensure_deps(quiet=False)"',
        hooks=dict(guard='ARMULATOR_VERIF',
                   enable='no source hooks: all monitors are attached from the harness at run time '
                          '(monkeypatching, icontract); checks export ARMULATOR_VERIF=1 for symmetry only',
                   baseline_off_cmd='cd /repo && env -u ARMULATOR_VERIF /venv/bin/python -m pytest -q -p no:cacheprovider',
                   source_commits=[], add_only=True),
        engines=[dict(name='vf', path='vf/', serves_properties=sorted(CHECKS),
                      kind_free_text='runtime monitoring harness: state observer, shard runner, reference-free '
                                     'monitors, independent ARM reference model used as lock-step oracle')],
        checks=checks,
        notes='All checks import the repository from /repo (ARMULATOR_REPO overrides for mutation runs) and observe '
              'executions of the real code; exit 0 held / 1 VIOLATION / 2 INCONCLUSIVE.',
        not_applicable=na)
    with open(os.path.join(HERE, 'MANIFEST.json'), 'w') as f:
        json.dump(m, f, indent=1)
    print('MANIFEST.json: %d checks, %d not claimed' % (len(checks), len(na)))


if __name__ == '__main__':
    main()
