#!/bin/bash
# usage: tools/sweep.sh <tier> <seeds...>   — runs every check; prints only lines that need attention + one summary line each
tier=$1; shift
for seed in "$@"; do
  for p in C01 C02 C03 C04 C05 C06 C07 C08 C09 C10 C11 C12 C13 C14 C15 C16 C17 C18 C19 C20; do
    out=$(VERIF_SEED=$seed ./check.py $p --tier $tier 2>&1); rc=$?
    echo "$out" | grep -E "^(VIOLATION|INCONCLUSIVE)" | cut -c1-600
    echo "rc=$rc $(echo "$out" | grep -E "^C[0-9]+ (quick|thorough)" | tail -1)"
  done
done
