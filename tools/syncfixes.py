#!/venv/bin/python
"""Adds a 'fixed' entry to known_findings.json for every 'fix:' commit of /repo that is not recorded yet, and
refreshes commit hashes of entries whose commit was rewritten (matched by subject)."""
import json, subprocess, os, re
HERE = os.path.dirname(os.path.dirname(os.path.abspath(__file__)))
p = os.path.join(HERE, 'known_findings.json')
d = json.load(open(p))
log = subprocess.run(['git', '-C', '/repo', 'log', '--format=%h %s', '1d60aef..HEAD'], capture_output=True, text=True).stdout.strip().splitlines()
subjects = {l.split(' ', 1)[0]: l.split(' ', 1)[1] for l in log}
fixed = [f for f in d['findings'] if f['status'] == 'fixed']
# drop entries whose commit no longer exists and cannot be matched
by_commit = {f.get('commit'): f for f in fixed}
PROPS = [('C16', r'RAM access'), ('C20', r'configuration'), ('C05', r'condition'), ('C17', r'ThumbExpandImm|TTBCR.ORGN0'),
         ('C10', r'modulo 2\^32|wrap|wraps'), ('C09', r'MULS|SSAT|UMLALS'), ('C15', r'TTBR0|PD0'), ('C12', r'SPSRWriteByInstr|SUBS PC, LR \(Thumb\)|exception return executed'),
         ('C03', r'LDM|STM|LDMDA|POP'), ('C02', r'LDR \(register\)|STREXD|stores of the PC|MemU'), ('C07', r'Thumb|T2|T3|T4|decode'),
         ('C06', r'ARM ADD/SUB|STRT/STRBT|LDRSB \(register\) A1'), ('C18', r'UNPREDICTABLE encoding'), ('C13', r'instruction fetch')]
for h, subj in subjects.items():
    if not subj.startswith('fix:'):
        continue
    if h in by_commit:
        continue
    # rewritten commit?
    old = [f for f in fixed if subj[5:50] in f['mechanism']]
    if old:
        f = old[0]
        f['mechanism'] = f['mechanism'].replace(f['commit'], h)
        f['commit'] = h
        f['id'] = 'fix_' + h
        continue
    prop = next((pid for pid, pat in PROPS if re.search(pat, subj)), 'C18')
    d['findings'].append(dict(id='fix_' + h, status='fixed', commit=h, properties=[prop],
                              mechanism='fixed: property=%s %s %s' % (prop, h, subj[5:])))
# remove fixed entries whose commit vanished
d['findings'] = [f for f in d['findings'] if f['status'] != 'fixed' or f.get('commit') in subjects]
json.dump(d, open(p, 'w'), indent=1)
print(len([f for f in d['findings'] if f['status'] == 'fixed']), 'fixed;', len([f for f in d['findings'] if f['status'] == 'known']), 'known;', len([s for s in subjects.values() if s.startswith('fix:')]), 'fix commits')
