#!/bin/bash
# commit a repository fix only if the unedited test suite still passes completely
cd /repo || exit 1
out=$(/venv/bin/python -m pytest -q -p no:cacheprovider 2>&1 | tail -1)
echo "$out"
if echo "$out" | grep -q "^686 passed"; then git commit -qam "$1" && git log --oneline | head -1; else echo "NOT COMMITTED (tests)"; git diff --stat; fi
