#!/venv/bin/python
"""Confirm a seeded change delivered by a sub-agent and run checks against it.

  tools/seedcheck.py <name> <src-dir> <Cnn> [<Cnn> ...] [--tier=quick] [--keep]

<src-dir> holds patch.diff, demo.py, meta.json.  Steps (all on a scratch copy of /repo under /var/tmp, never
/repo itself): (1) demo.py must exit 0 on the unchanged copy; (2) the patch must apply; (3) the repository's
686 tests must still pass; (4) demo.py must fail; (5) each named check runs with ARMULATOR_REPO=<copy>.
With --keep the change is stored as /verif/seeded/<name>/ with the results merged into meta.json."""
import json
import os
import shutil
import subprocess
import sys

HERE = os.path.dirname(os.path.dirname(os.path.abspath(__file__)))


def run(cmd, **kw):
    return subprocess.run(cmd, capture_output=True, text=True, **kw)


def main():
    args = [a for a in sys.argv[1:] if not a.startswith('--')]
    flags = [a for a in sys.argv[1:] if a.startswith('--')]
    name, src, props = args[0], os.path.abspath(args[1]), args[2:]
    tier = 'quick'
    for f in flags:
        if f.startswith('--tier='):
            tier = f.split('=')[1]
    dst = '/var/tmp/armulator-seed-%d' % os.getpid()
    subprocess.run(['rsync', '-a', '--exclude', '.git', '--exclude', '__pycache__', '/repo/', dst + '/'], check=True)
    evbak = '/var/tmp/evbak-%d' % os.getpid()
    result = dict(confirmed=False, caught_by=[], missed_by=[], ran=[])
    try:
        env = dict(os.environ, PYTHONPATH=dst)
        demo = os.path.join(src, 'demo.py')
        d0 = run(['/venv/bin/python', demo], env=env, cwd=dst, timeout=600)
        print('demo on unchanged copy: exit %d' % d0.returncode)
        p = run(['patch', '-p1', '-s', '-d', dst, '-i', os.path.join(src, 'patch.diff')])
        if p.returncode != 0:
            print('PATCH FAILED', p.stdout[-500:], p.stderr[-500:])
            return 3
        t = run(['/venv/bin/python', '-m', 'pytest', '-q', '-p', 'no:cacheprovider'], cwd=dst, env=env, timeout=1200)
        tline = t.stdout.strip().splitlines()[-1] if t.stdout.strip() else t.stderr[-200:]
        print('repo tests with the change:', tline)
        d1 = run(['/venv/bin/python', demo], env=env, cwd=dst, timeout=600)
        print('demo with the change: exit %d' % d1.returncode)
        result['confirmed'] = d0.returncode == 0 and d1.returncode != 0 and tline.startswith('686 passed')
        result['ran'].append('demo unchanged exit %d; tests "%s"; demo changed exit %d' % (d0.returncode, tline, d1.returncode))
        for pid in props:
            c = run([os.path.join(HERE, 'check.py'), pid, '--tier', tier], cwd=HERE, env=dict(os.environ, ARMULATOR_REPO=dst, VERIF_EVIDENCE_DIR=evbak + '/scratch-evidence'), timeout=7200)
            lines = [l for l in c.stdout.splitlines() if l.startswith(('VIOLATION', 'INCONCLUSIVE'))]
            print('%s exit=%d  %s' % (pid, c.returncode, '; '.join(l[:230] for l in lines[:3]) or c.stdout.strip()[-160:]))
            (result['caught_by'] if c.returncode == 1 else result['missed_by']).append(pid)
            result['ran'].append('./check.py %s --tier %s -> exit %d%s' % (pid, tier, c.returncode,
                                 (' ' + lines[0].split('#')[-1].strip()[:160]) if lines else ''))
            if c.returncode not in (0, 1, 2):
                print(c.stderr[-1500:])
    finally:
        shutil.rmtree(dst, ignore_errors=True)
        shutil.rmtree(evbak, ignore_errors=True)
    if '--keep' in flags and result['confirmed']:
        out = os.path.join(HERE, 'seeded', name)
        os.makedirs(out, exist_ok=True)
        for f in ('patch.diff', 'demo.py'):
            if os.path.abspath(src) != os.path.abspath(out):
                shutil.copy(os.path.join(src, f), os.path.join(out, f))
        meta = {}
        try:
            meta = json.load(open(os.path.join(src, 'meta.json')))
        except Exception:
            pass
        old = {}
        if os.path.exists(os.path.join(out, 'meta.json')):
            old = json.load(open(os.path.join(out, 'meta.json')))
        if os.path.abspath(src) == os.path.abspath(out):
            meta = dict(old)
        meta['confirmed_by_maintainer'] = True
        meta['missed_before_strengthening'] = sorted(set(old.get('missed_before_strengthening', [])) |
                                                     (set(old.get('missed_by', [])) & set(result['caught_by'])))
        meta['caught_by'] = sorted(set(old.get('caught_by', [])) | set(result['caught_by']))
        meta['missed_by'] = sorted((set(old.get('missed_by', [])) | set(result['missed_by'])) - set(meta['caught_by']))
        meta['what_i_ran'] = old.get('what_i_ran', []) + result['ran']
        json.dump(meta, open(os.path.join(out, 'meta.json'), 'w'), indent=1)
        print('kept as', out)
    print('RESULT', json.dumps(dict(confirmed=result['confirmed'], caught_by=result['caught_by'], missed_by=result['missed_by'])))
    return 0


if __name__ == '__main__':
    sys.exit(main())
