#!/venv/bin/python
import json,sys,glob
for f in sorted(glob.glob('/verif/evidence/replay/%s-*.json' % sys.argv[1])):
    d=json.load(open(f)); ds=d['desc']
    if isinstance(ds,dict):
        print(d['key'],'x%d'%d['count'],'|',ds.get('word'),ds.get('mode'),ds.get('ctx'),'ops',ds.get('operands'),'DIFFS',ds.get('diffs'), {k:ds[k] for k in ds if k in('sctlr_a_u','cpsr','it')})
    else: print(d['key'],ds)
