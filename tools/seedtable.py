#!/venv/bin/python
"""Prints the markdown table of DESIGN.md §10.5 from seeded/*/meta.json."""
import glob
import json
import os
import sys

HERE = os.path.dirname(os.path.dirname(os.path.abspath(__file__)))
rows = []
for d in sorted(glob.glob(os.path.join(HERE, 'seeded', '*'))):
    name = os.path.basename(d)
    if sys.argv[1:] and not name.startswith(tuple(sys.argv[1:])):
        continue
    m = json.load(open(os.path.join(d, 'meta.json')))
    prop = m.get('property') or name.split('-')[1 if name.startswith('R2') else 0]
    what = (m.get('what_it_breaks') or m.get('what') or m.get('summary') or m.get('description') or '')
    what = ' '.join(str(what).split())[:170]
    rows.append('| `%s` | %s | %s | %s | %s | %s |' % (
        name, prop, what.replace('|', '/'), ', '.join(m.get('caught_by', [])) or '—',
        ', '.join(m.get('missed_before_strengthening', [])) or '—', ', '.join(m.get('missed_by', [])) or '—'))
print('| seeded change | property | what it breaks (needs something specific to manifest: see meta.json) | caught by (quick tier) | '
      'missed before the generator was strengthened | also run, silent |')
print('|---|---|---|---|---|---|')
print('\n'.join(rows))
