#!/venv/bin/python
"""One CLI for all checks:  check.py <Cnn> [--tier quick|thorough] [--seed N] [--replay FILE]"""
import os
import sys
sys.path.insert(0, os.path.dirname(os.path.abspath(__file__)))
from vf.runner import main
sys.exit(main())
