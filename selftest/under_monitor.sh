#!/bin/bash
# §6.1: the repository's own tests with the lock-step monitor attached (trust-fetch mode).
# Expected: every judged step agrees with the reference except the steps of the recorded known findings.
cd /repo && PYTHONPATH=/verif /venv/bin/python -m pytest -q -p vf.pytest_monitor -p no:cacheprovider 2>&1 | tail -3
/venv/bin/python - <<'P'
import json
d = json.load(open('/verif/.work/under_monitor.json'))
bad = [x for x in d['disagree'] if not (x.get('diffs') and str(x['diffs'][0][0]).startswith('known-deviation:'))]
print('unexplained disagreements:', len(bad))
for x in bad[:20]:
    print(x)
raise SystemExit(1 if bad else 0)
P
